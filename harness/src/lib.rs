//! dexh — property-based / fuzzing harness for MANTRA-Chain/mantra-dex (see /verif/DESIGN.md)
pub mod exact;
pub mod framework;
pub mod world;
pub mod poolview;
pub mod pool;
pub mod farm;
pub mod props;
pub mod fuzzglue;
