//! Runner: drives an engine's proptest strategy on N worker threads, collects the class
//! distribution, shrinks the first failure, writes the replay file and the evidence file.
use std::collections::{BTreeMap, BTreeSet, HashSet};
use std::hash::{Hash, Hasher};
use std::sync::atomic::{AtomicBool, Ordering};
use std::sync::{Mutex, OnceLock};
use std::time::Instant;

use proptest::strategy::{BoxedStrategy, Strategy};
use proptest::test_runner::{Config, RngSeed, TestCaseError, TestError, TestRunner};
use serde::de::DeserializeOwned;
use serde::Serialize;
use serde_json::{json, Value};

/// root of the verification tree (evidence/, replays/, corpus/, KNOWN_FINDINGS.txt): $VERIF_DIR or /verif
pub fn verif_dir() -> String {
    std::env::var("VERIF_DIR").unwrap_or_else(|_| "/verif".to_string())
}

#[derive(Clone, Copy, PartialEq, Eq, Debug)]
pub enum Tier {
    Quick,
    Thorough,
}
impl Tier {
    pub fn name(&self) -> &'static str {
        match self {
            Tier::Quick => "quick",
            Tier::Thorough => "thorough",
        }
    }
}

/// What one worker (or the merged run) observed.
#[derive(Default, Clone)]
pub struct Stats {
    pub evaluations: u64,
    pub counters: BTreeMap<String, u64>,
    pub nontrivial: HashSet<u64>,
    pub samples: BTreeMap<String, Vec<Value>>,
    /// known-finding key -> (hits, first example)
    pub known: BTreeMap<String, (u64, String)>,
    /// when false nothing is recorded (used while proptest shrinks)
    pub frozen: bool,
    pub nt_flag: bool,
    /// largest value seen per key (deviation magnitudes etc.)
    pub maxima: BTreeMap<String, u128>,
    /// panics of the harness's own code while judging a case (never a verdict on the property)
    pub harness_panics: Vec<String>,
}

pub const SAMPLES_PER_CLASS: usize = 2;

impl Stats {
    pub fn bump(&mut self, k: &str) {
        self.add(k, 1);
    }
    pub fn add(&mut self, k: &str, n: u64) {
        if self.frozen {
            return;
        }
        *self.counters.entry(k.to_string()).or_insert(0) += n;
    }
    pub fn max(&mut self, k: &str, v: u128) {
        if self.frozen {
            return;
        }
        let e = self.maxima.entry(k.to_string()).or_insert(0);
        if v > *e {
            *e = v;
        }
    }
    pub fn get(&self, k: &str) -> u64 {
        self.counters.get(k).copied().unwrap_or(0)
    }
    /// mark the case being run as non-trivial by the property's rule; the driver then records the
    /// hash of the whole case, so each distinct case is counted once
    pub fn mark(&mut self) {
        if !self.frozen {
            self.nt_flag = true;
        }
    }
    pub fn commit_case<C: std::fmt::Debug + Serialize>(&mut self, case: &C) {
        if self.wants_sample("any") {
            self.sample("any", case);
        }
        if self.nt_flag && !self.frozen {
            if self.wants_sample("non-trivial") {
                self.sample("non-trivial", case);
            }
            let mut s = std::collections::hash_map::DefaultHasher::new();
            format!("{:?}", case).hash(&mut s);
            self.nontrivial.insert(s.finish());
        }
        self.nt_flag = false;
    }
    pub fn sample<S: Serialize>(&mut self, class: &str, v: &S) {
        if self.frozen {
            return;
        }
        let e = self.samples.entry(class.to_string()).or_default();
        if e.len() < SAMPLES_PER_CLASS {
            e.push(serde_json::to_value(v).unwrap_or(Value::Null));
        }
    }
    pub fn wants_sample(&self, class: &str) -> bool {
        !self.frozen && self.samples.get(class).map(|v| v.len()).unwrap_or(0) < SAMPLES_PER_CLASS
    }
    pub fn known(&mut self, key: &str, detail: impl FnOnce() -> String) {
        if self.frozen {
            return;
        }
        let e = self.known.entry(key.to_string()).or_insert((0, String::new()));
        if e.0 == 0 {
            e.1 = detail();
        }
        e.0 += 1;
    }
    pub fn merge(&mut self, o: Stats) {
        self.evaluations += o.evaluations;
        for (k, v) in o.counters {
            *self.counters.entry(k).or_insert(0) += v;
        }
        self.nontrivial.extend(o.nontrivial);
        for (k, v) in o.maxima {
            let e = self.maxima.entry(k).or_insert(0);
            if v > *e {
                *e = v;
            }
        }
        for (k, v) in o.samples {
            let e = self.samples.entry(k).or_default();
            for s in v {
                if e.len() < SAMPLES_PER_CLASS {
                    e.push(s);
                }
            }
        }
        for p in o.harness_panics {
            if self.harness_panics.len() < 3 {
                self.harness_panics.push(p);
            }
        }
        for (k, (n, d)) in o.known {
            let e = self.known.entry(k).or_insert((0, String::new()));
            if e.0 == 0 {
                e.1 = d;
            }
            e.0 += n;
        }
    }
}

/// An engine states a property (or one facet of it) as an executable check over generated cases.
pub trait Engine: Sync {
    type Case: std::fmt::Debug + Clone + Send + Serialize + DeserializeOwned + 'static;
    fn name(&self) -> &'static str;
    fn strategy(&self, tier: Tier) -> BoxedStrategy<Self::Case>;
    /// Err(message) = the property is violated by this case.
    fn run(&self, case: &Self::Case, st: &mut Stats) -> Result<(), String>;
}

/// Run one case; a panic of the harness's own code (contract panics are caught where the message
/// is executed) is recorded as an infrastructure problem and the case is skipped.
pub fn run_guarded<E: Engine>(e: &E, case: &E::Case, st: &mut Stats) -> Result<(), String> {
    match std::panic::catch_unwind(std::panic::AssertUnwindSafe(|| e.run(case, &mut *st))) {
        Ok(r) => r,
        Err(p) => {
            let msg = if let Some(s) = p.downcast_ref::<String>() {
                s.clone()
            } else if let Some(s) = p.downcast_ref::<&str>() {
                s.to_string()
            } else {
                "panic".to_string()
            };
            st.nt_flag = false;
            if st.harness_panics.len() < 3 {
                st.harness_panics.push(format!("engine {} panicked in its own code: {msg}; case {}", e.name(), serde_json::to_string(case).unwrap_or_default().chars().take(600).collect::<String>()));
            }
            Ok(())
        }
    }
}

pub struct Failure {
    pub engine: String,
    pub message: String,
    pub case: Value,
    pub replay_path: String,
}

pub struct Outcome {
    pub stats: Stats,
    pub failure: Option<Failure>,
    pub wall_s: f64,
}

/// known findings: open keys loaded once from /verif/KNOWN_FINDINGS.txt
static OPEN_KEYS: OnceLock<BTreeSet<String>> = OnceLock::new();
static STRICT: AtomicBool = AtomicBool::new(false);

pub fn load_known_findings() {
    let mut set = BTreeSet::new();
    if let Ok(s) = std::fs::read_to_string(format!("{}/KNOWN_FINDINGS.txt", verif_dir())) {
        for line in s.lines() {
            let line = line.trim();
            if let Some(rest) = line.strip_prefix("open:") {
                for tok in rest.split_whitespace() {
                    if let Some(k) = tok.strip_prefix("key=") {
                        set.insert(k.to_string());
                    }
                }
            }
        }
    }
    let _ = OPEN_KEYS.set(set);
}
/// ignore the known-findings file (every deviation is a violation) — used by `--strict`
pub fn set_strict(b: bool) {
    STRICT.store(b, Ordering::Relaxed);
}
pub fn kf_open(key: &str) -> bool {
    if STRICT.load(Ordering::Relaxed) {
        return false;
    }
    OPEN_KEYS.get().map(|s| s.contains(key)).unwrap_or(false)
}

pub fn default_threads() -> usize {
    std::env::var("VERIF_THREADS")
        .ok()
        .and_then(|s| s.parse().ok())
        .unwrap_or_else(|| {
            std::thread::available_parallelism()
                .map(|n| n.get())
                .unwrap_or(4)
                .min(16)
        })
}

/// Run `cases` generated cases of engine `e` over worker threads.
pub fn drive<E: Engine>(e: &E, prop: &str, tier: Tier, cases: u64, seed: u64) -> Outcome {
    let t0 = Instant::now();
    let threads = default_threads().min(cases.max(1) as usize).max(1);
    let per = cases.div_ceil(threads as u64);
    let abort = AtomicBool::new(false);
    let merged = Mutex::new(Stats::default());
    let failure: Mutex<Option<(String, E::Case)>> = Mutex::new(None);

    std::thread::scope(|s| {
        for w in 0..threads {
            let abort = &abort;
            let merged = &merged;
            let failure = &failure;
            s.spawn(move || {
                let mut runner = TestRunner::new(Config {
                    cases: per as u32,
                    failure_persistence: None,
                    rng_seed: RngSeed::Fixed(
                        seed.wrapping_mul(0x9E37_79B9_7F4A_7C15)
                            .wrapping_add(w as u64 * 7919 + name_hash(e.name())),
                    ),
                    max_shrink_iters: 4000,
                    max_global_rejects: 1 << 20,
                    ..Config::default()
                });
                let stats = std::cell::RefCell::new(Stats::default());
                let strat = e.strategy(tier);
                let r = runner.run(&strat, |case| {
                    if abort.load(Ordering::Relaxed) && !stats.borrow().frozen {
                        // another worker already found a violation: finish quickly
                        return Ok(());
                    }
                    let mut st = stats.borrow_mut();
                    if !st.frozen {
                        st.evaluations += 1;
                    }
                    match run_guarded(e, &case, &mut st) {
                        Ok(()) => {
                            st.commit_case(&case);
                            Ok(())
                        }
                        Err(m) => {
                            // stop counting: the closure is re-run while shrinking
                            st.frozen = true;
                            abort.store(true, Ordering::Relaxed);
                            Err(TestCaseError::fail(m))
                        }
                    }
                });
                let st = stats.into_inner();
                {
                    let mut m = merged.lock().unwrap();
                    let mut st2 = st;
                    st2.frozen = false;
                    m.merge(st2);
                }
                if let Err(TestError::Fail(reason, value)) = r {
                    let mut f = failure.lock().unwrap();
                    if f.is_none() {
                        *f = Some((reason.message().to_string(), value));
                    }
                } else if let Err(TestError::Abort(reason)) = r {
                    eprintln!("worker {w}: proptest aborted: {}", reason.message());
                }
            });
        }
    });

    let stats = merged.into_inner().unwrap();
    let failure = failure.into_inner().unwrap().map(|(msg, case)| {
        // re-run the shrunk case once to get its own message
        let mut tmp = Stats::default();
        tmp.frozen = true;
        let message = match run_guarded(e, &case, &mut tmp) {
            Err(m) => m,
            Ok(()) => msg,
        };
        let case_v = serde_json::to_value(&case).unwrap_or(Value::Null);
        let replay_path = write_replay(prop, e.name(), seed, &case_v, &message);
        Failure {
            engine: e.name().to_string(),
            message,
            case: case_v,
            replay_path,
        }
    });
    Outcome {
        stats,
        failure,
        wall_s: t0.elapsed().as_secs_f64(),
    }
}

fn name_hash(s: &str) -> u64 {
    let mut h = 1469598103934665603u64;
    for b in s.bytes() {
        h ^= b as u64;
        h = h.wrapping_mul(1099511628211);
    }
    h % 1_000_003
}

pub fn write_replay(prop: &str, engine: &str, seed: u64, case: &Value, message: &str) -> String {
    let body = json!({
        "property": prop,
        "engine": engine,
        "seed": seed,
        "message": message,
        "case": case,
    });
    let text = serde_json::to_string_pretty(&body).unwrap();
    let mut h = std::collections::hash_map::DefaultHasher::new();
    text.hash(&mut h);
    let dir = format!("{}/replays", verif_dir());
    let _ = std::fs::create_dir_all(&dir);
    let path = format!("{dir}/{prop}-{engine}-{seed}-{:08x}.json", h.finish() as u32);
    let _ = std::fs::write(&path, text);
    path
}

/// Replay one saved case through an engine, without proptest.
pub fn replay_case<E: Engine>(e: &E, case: &Value) -> Result<Result<(), String>, String> {
    let c: E::Case = serde_json::from_value(case.clone()).map_err(|x| format!("bad case: {x}"))?;
    let mut st = Stats::default();
    let r = run_guarded(e, &c, &mut st);
    if let Some(p) = st.harness_panics.first() {
        return Err(p.clone());
    }
    Ok(r)
}

/// Committed regression cases: /verif/corpus/<prop>/*.json, each `{engine, case, expect}`.
pub fn corpus_files(prop: &str) -> Vec<std::path::PathBuf> {
    let dir = format!("{}/corpus/{prop}", verif_dir());
    let mut v: Vec<_> = std::fs::read_dir(dir)
        .map(|rd| {
            rd.filter_map(|e| e.ok())
                .map(|e| e.path())
                .filter(|p| p.extension().map(|x| x == "json").unwrap_or(false))
                .collect()
        })
        .unwrap_or_default();
    v.sort();
    v
}

pub struct PropReport {
    pub property: String,
    pub tier: Tier,
    pub seed: u64,
    pub level: &'static str,
    pub rule: String,
    pub assumptions: Vec<String>,
    pub engines: Vec<(String, Outcome)>,
    pub extra: BTreeMap<String, Value>,
    pub exhaustive: bool,
    /// generator floors that were not met: (counter, got, wanted)
    pub floor_misses: Vec<(String, u64, u64)>,
    pub corpus_ok: u64,
    pub corpus_failures: Vec<(String, String)>,
    /// infrastructure problems (unreadable corpus file etc.): exit 2, never a violation
    pub harness_errors: Vec<String>,
}

impl PropReport {
    pub fn new(property: &str, tier: Tier, seed: u64, level: &'static str, rule: &str) -> Self {
        PropReport {
            property: property.to_string(),
            tier,
            seed,
            level,
            rule: rule.to_string(),
            assumptions: vec![],
            engines: vec![],
            extra: BTreeMap::new(),
            exhaustive: false,
            floor_misses: vec![],
            corpus_ok: 0,
            corpus_failures: vec![],
            harness_errors: vec![],
        }
    }
    pub fn push(&mut self, name: &str, o: Outcome) {
        self.engines.push((name.to_string(), o));
    }
    pub fn violated(&self) -> bool {
        self.engines.iter().any(|(_, o)| o.failure.is_some())
    }
    pub fn counter(&self, k: &str) -> u64 {
        self.engines.iter().map(|(_, o)| o.stats.get(k)).sum()
    }
    pub fn floor(&mut self, counter: &str, min: u64) {
        let got = self.counter(counter);
        if got < min {
            self.floor_misses.push((counter.to_string(), got, min));
        }
    }

    /// Write evidence, print VIOLATION / KNOWN-FINDING lines, return the exit code.
    pub fn finish(self) -> i32 {
        let mut evaluations = 0u64;
        let mut nontrivial = 0u64;
        let mut samples: Vec<Value> = vec![];
        let mut classes = serde_json::Map::new();
        let mut known = serde_json::Map::new();
        let mut wall = 0f64;
        let mut violations = 0;
        let mut per_engine = serde_json::Map::new();
        for (name, o) in &self.engines {
            evaluations += o.stats.evaluations;
            nontrivial += o.stats.nontrivial.len() as u64;
            wall += o.wall_s;
            for (class, vs) in &o.stats.samples {
                for v in vs {
                    samples.push(json!({"engine": name, "class": class, "case": v}));
                }
            }
            let mut m = serde_json::Map::new();
            for (k, v) in &o.stats.counters {
                m.insert(k.clone(), json!(v));
            }
            if !o.stats.maxima.is_empty() {
                let mut mm = serde_json::Map::new();
                for (k, v) in &o.stats.maxima {
                    mm.insert(k.clone(), json!(v.to_string()));
                }
                m.insert("maxima".into(), Value::Object(mm));
            }
            classes.insert(name.clone(), Value::Object(m));
            per_engine.insert(
                name.clone(),
                json!({"evaluations": o.stats.evaluations, "distinct_nontrivial": o.stats.nontrivial.len(), "wall_s": (o.wall_s*1000.0).round()/1000.0}),
            );
            for (k, (n, d)) in &o.stats.known {
                let e = known
                    .entry(k.clone())
                    .or_insert_with(|| json!({"hits": 0u64, "example": d}));
                let hits = e["hits"].as_u64().unwrap_or(0) + n;
                e["hits"] = json!(hits);
            }
            if let Some(f) = &o.failure {
                violations += 1;
                println!(
                    "VIOLATION property={} replay={}",
                    self.property, f.replay_path
                );
                println!("  engine={} message={}", f.engine, f.message);
            }
        }
        for (path, m) in &self.corpus_failures {
            violations += 1;
            println!("VIOLATION property={} replay={}", self.property, path);
            println!("  corpus case: {m}");
        }
        evaluations += self.corpus_ok + self.corpus_failures.len() as u64;
        for (k, v) in &known {
            println!(
                "KNOWN-FINDING: property={} key={} hits={} e.g. {}",
                self.property,
                k,
                v["hits"],
                v["example"].as_str().unwrap_or("")
            );
        }
        let mut coverage = serde_json::Map::new();
        coverage.insert("evaluations".into(), json!(evaluations));
        coverage.insert("distinct_nontrivial".into(), json!(nontrivial));
        coverage.insert("rule".into(), json!(self.rule));
        coverage.insert("samples".into(), Value::Array(samples));
        coverage.insert("classes".into(), Value::Object(classes));
        coverage.insert("engines".into(), Value::Object(per_engine));
        coverage.insert("known_findings".into(), Value::Object(known));
        coverage.insert("exhaustive".into(), json!(self.exhaustive));
        coverage.insert("corpus_cases_replayed".into(), json!(self.corpus_ok + self.corpus_failures.len() as u64));
        if !self.floor_misses.is_empty() {
            coverage.insert(
                "generator_floor_misses".into(),
                json!(self
                    .floor_misses
                    .iter()
                    .map(|(k, g, w)| format!("{k}: {g} < {w}"))
                    .collect::<Vec<_>>()),
            );
        }
        for (k, v) in &self.extra {
            coverage.insert(k.clone(), v.clone());
        }
        let ev = json!({
            "property_id": self.property,
            "tier": self.tier.name(),
            "seed": self.seed,
            "level": self.level,
            "coverage": Value::Object(coverage),
            "assumptions": self.assumptions,
            "wall_s": (wall * 1000.0).round() / 1000.0,
            "violations": violations,
        });
        let dir = format!("{}/evidence", verif_dir());
        let _ = std::fs::create_dir_all(&dir);
        let path = format!("{dir}/{}.json", self.property);
        if let Err(e) = std::fs::write(&path, serde_json::to_string_pretty(&ev).unwrap()) {
            eprintln!("cannot write evidence {path}: {e}");
            return 2;
        }
        println!(
            "{} {}: {} cases, {} distinct non-trivial, {:.1}s, violations={}",
            self.property,
            self.tier.name(),
            evaluations,
            nontrivial,
            wall,
            violations
        );
        if violations > 0 {
            return 1;
        }
        let mut harness_errors = self.harness_errors.clone();
        for (_, o) in &self.engines {
            harness_errors.extend(o.stats.harness_panics.iter().cloned());
        }
        let this = PropReportErrors { harness_errors };
        if !this.harness_errors.is_empty() {
            for e in &this.harness_errors {
                eprintln!("INFRASTRUCTURE property={}: {e}", self.property);
            }
            return 2;
        }
        if !self.floor_misses.is_empty() {
            for (k, g, w) in &self.floor_misses {
                eprintln!(
                    "INCONCLUSIVE property={}: generator class '{}' reached {} < floor {}",
                    self.property, k, g, w
                );
            }
            return 2;
        }
        if nontrivial < 2 {
            eprintln!("INCONCLUSIVE property={}: fewer than 2 non-trivial cases", self.property);
            return 2;
        }
        0
    }
}

struct PropReportErrors {
    harness_errors: Vec<String>,
}

/// helper: boxed strategy from any strategy
pub fn boxed<S: Strategy + 'static>(s: S) -> BoxedStrategy<S::Value>
where
    S::Value: std::fmt::Debug,
{
    s.boxed()
}

/// Monotone index map (shrinks toward the first element): i in 0..=65535 -> 0..len
pub fn pick(i: u16, len: usize) -> usize {
    if len == 0 {
        0
    } else {
        ((i as usize) * len) >> 16
    }
}

pub fn fuzz_enabled() -> bool {
    std::env::var("VERIF_FUZZ").map(|v| v != "0").unwrap_or(true)
}

/// Engine Z: a coverage-guided campaign (libFuzzer through cargo-fuzz, see /verif/fuzz) over the
/// JSON text of an engine's cases. The fuzz target carries its own oracle; here every crash input
/// is re-judged by the property's own engine `e` (so a crash that belongs to another property's
/// monitor is not attributed to this one), minimised by deleting operations, and written as a
/// replay file. Afterwards the whole corpus the fuzzer kept (the coverage-distinct inputs) is run
/// through `e` in this process, which gives the evaluation / non-trivial counts of the stage.
/// An unavailable fuzz toolchain is recorded, not reported as a violation.
pub fn fuzz_stage<E: Engine>(e: &E, prop: &str, target: &str, runs: u64, seed: u64) -> Outcome {
    let t0 = Instant::now();
    let mut stats = Stats::default();
    let out = format!("{}/harness/target/fuzz-out/{prop}-{target}", verif_dir());
    let _ = std::fs::remove_dir_all(&out);
    let r = std::process::Command::new(format!("{}/fuzz/run.sh", verif_dir()))
        .args([target, &runs.to_string(), &seed.max(1).to_string(), &out])
        .output();
    let line = match &r {
        Ok(o) => String::from_utf8_lossy(&o.stdout).lines().filter(|l| l.starts_with("FUZZ ")).last().unwrap_or("").to_string(),
        Err(_) => String::new(),
    };
    let field = |k: &str| -> Option<u64> { line.split_whitespace().find_map(|w| w.strip_prefix(&format!("{k}="))).and_then(|v| v.parse().ok()) };
    let Some(execs) = field("execs") else {
        eprintln!("fuzz stage {target}: not available ({})", if line.is_empty() { "no result line" } else { &line });
        stats.add("fuzz stage unavailable", 1);
        return Outcome { stats, failure: None, wall_s: t0.elapsed().as_secs_f64() };
    };
    stats.add("fuzz executions (libFuzzer)", execs);
    stats.add("fuzz crash inputs", field("crashes").unwrap_or(0));
    // a panic of the interpreter on a mutated input is a harness limitation, never a violation
    let run_one = |c: &E::Case, st: &mut Stats| -> Result<(), String> {
        match std::panic::catch_unwind(std::panic::AssertUnwindSafe(|| e.run(c, st))) {
            Ok(r) => r,
            Err(_) => {
                st.frozen = false;
                st.nt_flag = false;
                st.add("fuzz inputs the interpreter could not run (skipped)", 1);
                Ok(())
            }
        }
    };
    let mut failure = None;
    let mut files: Vec<_> = std::fs::read_dir(&out).map(|d| d.filter_map(|x| x.ok()).map(|x| x.path()).collect()).unwrap_or_default();
    files.sort();
    for f in files {
        let Ok(bytes) = std::fs::read(&f) else { continue };
        let Ok(v) = serde_json::from_slice::<Value>(&bytes) else { continue };
        let Ok(c) = serde_json::from_value::<E::Case>(v.clone()) else { continue };
        let mut frozen = Stats::default();
        frozen.frozen = true;
        match run_one(&c, &mut frozen) {
            Ok(()) => stats.add("fuzz crash inputs judged by another property's monitor", 1),
            Err(m) => {
                stats.add("fuzz crash inputs violating this property", 1);
                if failure.is_none() {
                    let (v, m) = minimise_ops::<E>(e, v, m);
                    let replay_path = write_replay(prop, e.name(), seed, &v, &m);
                    failure = Some(Failure { engine: e.name().to_string(), message: m, case: v, replay_path });
                }
            }
        }
    }
    // the corpus the fuzzer kept
    let corpus = format!("{out}.work/corpus");
    let mut files: Vec<_> = std::fs::read_dir(&corpus).map(|d| d.filter_map(|x| x.ok()).map(|x| x.path()).collect()).unwrap_or_default();
    files.sort();
    let cases: Vec<E::Case> = files
        .iter()
        .filter_map(|f| std::fs::read(f).ok())
        .filter_map(|b| serde_json::from_slice::<E::Case>(&b).ok())
        .collect();
    stats.add("fuzz corpus inputs kept (coverage-distinct)", cases.len() as u64);
    let threads = default_threads().max(1);
    let merged = Mutex::new(Stats::default());
    let fail2: Mutex<Option<(String, E::Case)>> = Mutex::new(None);
    let mut parts: Vec<Vec<E::Case>> = (0..threads).map(|_| vec![]).collect();
    for (i, c) in cases.into_iter().enumerate() {
        parts[i % threads].push(c);
    }
    std::thread::scope(|s| {
        for part in parts {
            let merged = &merged;
            let fail2 = &fail2;
            s.spawn(move || {
                let mut st = Stats::default();
                for c in part.iter() {
                    st.evaluations += 1;
                    let r = match std::panic::catch_unwind(std::panic::AssertUnwindSafe(|| e.run(c, &mut st))) {
                        Ok(r) => r,
                        Err(_) => {
                            st.nt_flag = false;
                            st.add("fuzz inputs the interpreter could not run (skipped)", 1);
                            continue;
                        }
                    };
                    match r {
                        Ok(()) => st.commit_case(c),
                        Err(m) => {
                            st.nt_flag = false;
                            let mut f = fail2.lock().unwrap();
                            if f.is_none() {
                                *f = Some((m, c.clone()));
                            }
                        }
                    }
                }
                merged.lock().unwrap().merge(st);
            });
        }
    });
    stats.merge(merged.into_inner().unwrap());
    if failure.is_none() {
        if let Some((m, c)) = fail2.into_inner().unwrap() {
            let v = serde_json::to_value(&c).unwrap_or(Value::Null);
            let (v, m) = minimise_ops::<E>(e, v, m);
            let replay_path = write_replay(prop, e.name(), seed, &v, &m);
            failure = Some(Failure { engine: e.name().to_string(), message: m, case: v, replay_path });
        }
    }
    Outcome { stats, failure, wall_s: t0.elapsed().as_secs_f64() }
}

/// greedy minimisation of a failing JSON case: delete elements of its "ops" array while the
/// engine still reports a violation
fn minimise_ops<E: Engine>(e: &E, mut v: Value, mut msg: String) -> (Value, String) {
    let fails = |v: &Value| -> Option<String> {
        let c: E::Case = serde_json::from_value(v.clone()).ok()?;
        let mut st = Stats::default();
        st.frozen = true;
        std::panic::catch_unwind(std::panic::AssertUnwindSafe(|| e.run(&c, &mut st))).ok()?.err()
    };
    let mut progress = true;
    let mut budget = 600;
    while progress && budget > 0 {
        progress = false;
        let n = v.get("ops").and_then(|o| o.as_array()).map(|a| a.len()).unwrap_or(0);
        let mut i = n;
        while i > 0 && budget > 0 {
            i -= 1;
            budget -= 1;
            let mut t = v.clone();
            t["ops"].as_array_mut().unwrap().remove(i);
            if let Some(m) = fails(&t) {
                v = t;
                msg = m;
                progress = true;
            }
        }
    }
    (v, msg)
}
