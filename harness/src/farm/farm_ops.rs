//! Farm lifecycle ops (create / expand / close) with the C11 oracles.
use std::collections::BTreeMap;

use cosmwasm_std::{coin, Addr, Coin};
use mantra_dex_std::farm_manager as fm;

use super::interp::*;
use super::model::*;
use super::ops::*;
use crate::framework::Stats;
use crate::world::Snapshot;

pub const EPOCH_BUFFER: u64 = 14;

impl FarmSim {
    #[allow(clippy::too_many_arguments)]
    pub fn op_create_farm(
        &mut self,
        user: u8,
        lp: u8,
        reward: u8,
        amount: u64,
        start: Option<u8>,
        len: Option<u16>,
        id: Option<u8>,
        funds_v: &Funds,
        st: &mut Stats,
    ) -> Result<(), String> {
        let sender = self.user(user);
        let lp = self.lp(lp);
        let rd = self.reward_denom(reward);
        let e = self.epoch();
        let now = self.w.now();
        let amount = amount as u128;
        let fee = self.fee.clone();
        let r_coin = coin(amount, &rd);
        // funds
        let mut funds: Vec<Coin> = vec![];
        let push = |funds: &mut Vec<Coin>, c: Coin| {
            if c.amount.is_zero() {
                return;
            }
            if let Some(x) = funds.iter_mut().find(|x| x.denom == c.denom) {
                x.amount += c.amount;
            } else {
                funds.push(c);
            }
        };
        match funds_v {
            Funds::Exact => {
                push(&mut funds, r_coin.clone());
                push(&mut funds, fee.clone());
            }
            Funds::FeeOver(x) => {
                push(&mut funds, r_coin.clone());
                push(&mut funds, coin(fee.amount.u128() + *x as u128, &fee.denom));
            }
            Funds::FeeUnder => {
                push(&mut funds, r_coin.clone());
                push(&mut funds, coin(fee.amount.u128().saturating_sub(1), &fee.denom));
            }
            Funds::NoFee => push(&mut funds, r_coin.clone()),
            Funds::ExtraCoin => {
                push(&mut funds, r_coin.clone());
                push(&mut funds, fee.clone());
                push(&mut funds, coin(777, "uweth"));
            }
            Funds::RewardShort => {
                push(&mut funds, coin(amount.saturating_sub(1), &rd));
                push(&mut funds, fee.clone());
            }
            Funds::RewardOver => {
                push(&mut funds, coin(amount + 1, &rd));
                push(&mut funds, fee.clone());
            }
            Funds::NoReward => push(&mut funds, fee.clone()),
        }
        funds.sort_by(|a, b| a.denom.cmp(&b.denom));
        // cap at what the sender owns (LP-denominated rewards): otherwise the bank refuses
        for c in funds.iter() {
            if self.w.balance(&sender, &c.denom) < c.amount.u128() {
                return Ok(());
            }
        }
        let start_epoch = start.map(|s| e + s as u64);
        let end_epoch = len.map(|l| start_epoch.unwrap_or(e + 1) + l as u64);
        let identifier = id.map(|k| format!("fx{k}"));
        let params = fm::FarmParams {
            lp_denom: lp.clone(),
            start_epoch,
            preliminary_end_epoch: end_epoch,
            curve: None,
            farm_asset: r_coin.clone(),
            farm_identifier: identifier.clone(),
        };
        // ---- independent validity predicate (None = not decided by the documentation alone)
        let on_lp: Vec<MFarm> = self.l.farms.values().filter(|f| f.lp == lp).cloned().collect();
        // the contract looks at the first `max` farms of the LP token (by identifier)
        let listed: Vec<MFarm> = on_lp.iter().take(self.max_farms as usize).cloned().collect();
        let expired: Vec<MFarm> = listed.iter().filter(|f| self.farm_expired(f, now)).cloned().collect();
        let live = listed.len() - expired.len();
        let sent: BTreeMap<String, u128> = funds.iter().map(|c| (c.denom.clone(), c.amount.u128())).collect();
        let s_eff = start_epoch.unwrap_or(e + 1);
        let e_eff = end_epoch.unwrap_or(s_eff + 14);
        let epochs_ok = s_eff > e && s_eff < e_eff && e_eff > e && s_eff <= e + EPOCH_BUFFER;
        let funds_ok = if fee.denom == rd {
            sent.len() == 1 && sent.get(&rd).copied() == Some(amount + fee.amount.u128())
        } else if fee.amount.is_zero() {
            sent.len() == 1 && sent.get(&rd).copied() == Some(amount)
        } else {
            sent.len() == 2 && sent.get(&rd).copied() == Some(amount) && sent.get(&fee.denom).copied().unwrap_or(0) >= fee.amount.u128()
        };
        let full_id = identifier.as_ref().map(|i| format!("m-{i}"));
        let id_ok = full_id.as_ref().map(|i| !self.l.farms.contains_key(i) || expired.iter().any(|x| &x.id == i)).unwrap_or(true);
        let decided = on_lp.len() <= self.max_farms as usize;
        let valid = live < self.max_farms as usize && amount >= 1000 && funds_ok && epochs_ok && id_ok;
        let what = format!(
            "step {}: create farm by {} on {} reward {} funds {:?} start {:?} end {:?} id {:?} (fee {}, epoch {e})",
            self.steps,
            self.label(sender.as_str()),
            short_denom(&lp),
            r_coin,
            funds.iter().map(|c| c.to_string()).collect::<Vec<_>>(),
            start_epoch,
            end_epoch,
            identifier,
            fee
        );
        let pre = Snapshot::take(&self.w);
        let r = self.w.farm(&sender, fm::FarmAction::Create { params }, &funds);
        let post = Snapshot::take(&self.w);
        let ok = r.is_ok();
        st.bump(if ok { "farm create: ok" } else { "farm create: rejected" });
        if self.mon.c11 && decided && ok != valid {
            return Err(format!(
                "[C11] {what}: accepted={ok} but the documented rules say {valid} (live farms {live}/{}, amount>=1000 {}, funds exact {funds_ok}, epochs {epochs_ok}, identifier free {id_ok}); error: {:?}",
                self.max_farms,
                amount >= 1000,
                r.as_ref().err().map(|e| e.chars().take(100).collect::<String>())
            ));
        }
        if ok {
            // expired farms among the listed ones are closed first; then find the new farm
            for x in expired.iter() {
                self.l.farms.remove(&x.id);
            }
            let farms = self.w.farms();
            let newf = match farms.iter().find(|f| !self.l.farms.contains_key(&f.identifier)) {
                Some(f) => f.clone(),
                None => return Err(format!("[C11] {what}: accepted but no new farm is reported")),
            };
            // expired farms among the listed ones are closed: remainder back to their owners
            let mut expect: BTreeMap<(String, String), i128> = BTreeMap::new();
            let sl = self.label(sender.as_str());
            for c in funds.iter() {
                Self::add_pub(&mut expect, &sl, &c.denom, -(c.amount.u128() as i128));
                Self::add_pub(&mut expect, "farm_manager", &c.denom, c.amount.u128() as i128);
            }
            // fee to the collector, overpayment back to the sender
            if !fee.amount.is_zero() {
                Self::add_pub(&mut expect, "farm_manager", &fee.denom, -(fee.amount.u128() as i128));
                Self::add_pub(&mut expect, "fee_collector", &fee.denom, fee.amount.u128() as i128);
                if fee.denom != rd {
                    let over = sent.get(&fee.denom).copied().unwrap_or(0) - fee.amount.u128();
                    Self::add_pub(&mut expect, "farm_manager", &fee.denom, -(over as i128));
                    Self::add_pub(&mut expect, &sl, &fee.denom, over as i128);
                }
            }
            for x in expired.iter() {
                let rem = x.funded.saturating_sub(x.claimed);
                let ol = self.label(&x.owner);
                Self::add_pub(&mut expect, "farm_manager", &x.reward_denom, -(rem as i128));
                Self::add_pub(&mut expect, &ol, &x.reward_denom, rem as i128);
                st.bump("farm auto-closed on create");
                if self.mon.c11 {
                    st.mark();
                }
            }
            let actual = Self::deltas_pub(&pre, &post);
            if self.mon.c11 && actual != expect {
                return Err(format!("[C11] {what}: balances changed by {:?}, the rules entitle {:?}", actual, expect));
            }
            let m = MFarm {
                id: newf.identifier.clone(),
                owner: sender.to_string(),
                lp: lp.clone(),
                reward_denom: rd.clone(),
                funded: amount,
                claimed: 0,
                start: s_eff,
                end: e_eff,
                rate: amount / (e_eff - s_eff) as u128,
            };
            if let Some(fid) = &full_id {
                if &newf.identifier != fid && self.mon.c11 {
                    return Err(format!("[C11] {what}: farm stored as {} instead of {fid}", newf.identifier));
                }
            }
            self.l.farms.insert(m.id.clone(), m);
        }
        self.after_step_pub(&what, ok, &pre, &post, st)
    }

    pub fn op_expand_farm(&mut self, by_owner: bool, farm: u16, epochs: u8, exact: bool, wrong_denom: bool, st: &mut Stats) -> Result<(), String> {
        if self.l.farms.is_empty() {
            return Ok(());
        }
        let ids: Vec<String> = self.l.farms.keys().cloned().collect();
        let f = self.l.farms[&ids[pick_idx(farm, ids.len())]].clone();
        let owner = Addr::unchecked(f.owner.clone());
        let sender = if by_owner { owner.clone() } else { self.w.users.iter().find(|u| **u != owner).cloned().unwrap() };
        let e = self.epoch();
        let now = self.w.now();
        let mut amount = f.rate * epochs as u128;
        if !exact {
            amount += 1;
        }
        let denom = if wrong_denom { "uusdt".to_string() } else { f.reward_denom.clone() };
        if amount == 0 || self.w.balance(&sender, &denom) < amount {
            return Ok(());
        }
        let c = coin(amount, &denom);
        let params = fm::FarmParams {
            lp_denom: f.lp.clone(),
            start_epoch: None,
            preliminary_end_epoch: None,
            curve: None,
            farm_asset: c.clone(),
            farm_identifier: Some(f.id.clone()),
        };
        let valid = by_owner && e < f.end && !self.farm_expired(&f, now) && !wrong_denom && f.rate > 0 && amount % f.rate == 0;
        let what = format!(
            "step {}: expand farm {} ({:?}) by {} with {c} at epoch {e}",
            self.steps,
            f.id,
            f,
            self.label(sender.as_str())
        );
        let pre = Snapshot::take(&self.w);
        let r = self.w.farm(&sender, fm::FarmAction::Expand { params }, &[c.clone()]);
        let post = Snapshot::take(&self.w);
        let ok = r.is_ok();
        st.bump(if ok { "farm expand: ok" } else { "farm expand: rejected" });
        if self.mon.c11 && ok != valid {
            return Err(format!("[C11] {what}: accepted={ok}, the documented rules say {valid} ({:?})", r.err().map(|e| e.chars().take(100).collect::<String>())));
        }
        if ok {
            let mut expect = BTreeMap::new();
            Self::add_pub(&mut expect, &self.label(sender.as_str()), &denom, -(amount as i128));
            Self::add_pub(&mut expect, "farm_manager", &denom, amount as i128);
            let actual = Self::deltas_pub(&pre, &post);
            if self.mon.c11 && actual != expect {
                return Err(format!("[C11] {what}: balances changed by {:?}, expected {:?}", actual, expect));
            }
            let m = self.l.farms.get_mut(&f.id).unwrap();
            m.funded += amount;
            // (rate 0 in the ledger means the ledger says this expansion is impossible: if the
            // contract accepted it anyway the monitors above have reported it when they are on)
            m.end += amount.checked_div(f.rate).unwrap_or(0) as u64;
            if m.claimed > 0 && self.mon.c11 {
                st.mark();
            }
        }
        self.after_step_pub(&what, ok, &pre, &post, st)
    }

    pub fn op_close_farm(&mut self, by: u8, farm: u16, st: &mut Stats) -> Result<(), String> {
        if self.l.farms.is_empty() {
            return Ok(());
        }
        let ids: Vec<String> = self.l.farms.keys().cloned().collect();
        let f = self.l.farms[&ids[pick_idx(farm, ids.len())]].clone();
        let owner = Addr::unchecked(f.owner.clone());
        let sender = match by % 3 {
            0 => owner.clone(),
            1 => self.w.owner.clone(),
            _ => self.w.users.iter().find(|u| **u != owner).cloned().unwrap(),
        };
        let valid = by % 3 != 2;
        let what = format!("step {}: close farm {} ({:?}) by {}", self.steps, f.id, f, self.label(sender.as_str()));
        let pre = Snapshot::take(&self.w);
        let r = self.w.farm(&sender, fm::FarmAction::Close { farm_identifier: f.id.clone() }, &[]);
        let post = Snapshot::take(&self.w);
        let ok = r.is_ok();
        st.bump(if ok { "farm close: ok" } else { "farm close: rejected" });
        if self.mon.c11 && ok != valid {
            return Err(format!("[C11] {what}: accepted={ok}, only the farm owner and the contract owner may close a farm ({:?})", r.err()));
        }
        if ok {
            let rem = f.funded.saturating_sub(f.claimed);
            let mut expect = BTreeMap::new();
            Self::add_pub(&mut expect, "farm_manager", &f.reward_denom, -(rem as i128));
            Self::add_pub(&mut expect, &self.label(&f.owner), &f.reward_denom, rem as i128);
            let actual = Self::deltas_pub(&pre, &post);
            if (self.mon.c11 || self.mon.c05) && actual != expect {
                return Err(format!("[C11] {what}: balances changed by {:?}; closing refunds exactly the unclaimed remainder {rem} to the farm owner: {:?}", actual, expect));
            }
            if f.claimed > 0 && self.mon.c11 {
                st.bump("farm closed after claims");
                st.mark();
            }
            self.l.farms.remove(&f.id);
        }
        self.after_step_pub(&what, ok, &pre, &post, st)
    }

    // small public wrappers so the sibling modules can use the private helpers
    pub fn add_pub(m: &mut BTreeMap<(String, String), i128>, who: &str, denom: &str, v: i128) {
        if v == 0 {
            return;
        }
        let k = (who.to_string(), denom.to_string());
        let e = m.entry(k.clone()).or_insert(0);
        *e += v;
        if *e == 0 {
            m.remove(&k);
        }
    }
    pub fn deltas_pub(pre: &Snapshot, post: &Snapshot) -> BTreeMap<(String, String), i128> {
        let mut m = BTreeMap::new();
        let keys: std::collections::BTreeSet<_> = pre.balances.keys().chain(post.balances.keys()).cloned().collect();
        for k in keys {
            let a = pre.balances.get(&k).copied().unwrap_or(0) as i128;
            let b = post.balances.get(&k).copied().unwrap_or(0) as i128;
            if a != b {
                m.insert(k, b - a);
            }
        }
        m
    }
}

pub fn short_denom(d: &str) -> String {
    match d.rsplit('/').next() {
        Some(s) => s.to_string(),
        None => d.to_string(),
    }
}
