pub mod farm_ops;
pub mod interp;
pub mod model;
pub mod ops;
pub mod pos_ops;

use cosmwasm_std::{coin, Addr};
use mantra_dex_std::farm_manager as fm;

use crate::framework::Stats;
use crate::world::{Snapshot, DAY, GENESIS, MONTH, YEAR};
use interp::*;
use ops::*;

impl FarmSim {
    pub fn step(&mut self, op: &FOp, st: &mut Stats) -> Result<(), String> {
        self.steps += 1;
        match op {
            FOp::Farm { user, lp, reward, amount, start, len, id, funds } => self.op_create_farm(*user, *lp, *reward, *amount, *start, *len, *id, funds, st),
            FOp::ExpandFarm { by_owner, farm, epochs, exact_multiple, wrong_denom } => self.op_expand_farm(*by_owner, *farm, *epochs, *exact_multiple, *wrong_denom, st),
            FOp::CloseFarm { by, farm } => self.op_close_farm(*by, *farm, st),
            FOp::Open { user, lp, amount, dur, id, for_other } => self.op_open(*user, *lp, *amount, *dur, *id, *for_other, st),
            FOp::ExpandPos { by, user, pos, amount } => self.op_expand_pos(*by, *user, *pos, *amount, st),
            FOp::ClosePos { user, pos, part, claim_first, by_other } => self.op_close_pos(*user, *pos, part, *claim_first, *by_other, st),
            FOp::WithdrawPos { user, pos, emergency, by_other, at_unlock } => self.op_withdraw_pos(*user, *pos, *emergency, *by_other, *at_unlock, st),
            FOp::LockViaPm { user, lp, amount, dur, id } => self.op_lock_via_pm(*user, *lp, *amount, *dur, *id, st),
            FOp::Claim { user, until } => {
                let mut who = self.user(*user);
                // prefer a claimer that has something at stake
                if self.l.open_positions_of(who.as_str()).is_empty() && *user % 8 != 7 {
                    if let Some(o) = self.w.users.clone().into_iter().find(|u| !self.l.open_positions_of(u.as_str()).is_empty()) {
                        who = o;
                    }
                }
                let e = self.epoch();
                let u = match until {
                    Until::None => None,
                    Until::Back(k) => Some(e.saturating_sub(*k as u64)),
                    Until::FromCursor(k) => {
                        let c = self.l.last_claimed.get(who.as_str()).copied().unwrap_or(0);
                        Some((c + *k as u64).saturating_sub(1))
                    }
                    Until::Future => Some(e + 1),
                };
                self.do_claim(&who, u, st).map(|_| ())
            }
            FOp::Advance(a) => {
                self.op_advance(a, st);
                Ok(())
            }
            FOp::Config { which, value } => self.op_config(*which, *value, st),
            FOp::Bad(a, b) => self.op_bad(*a, *b, st),
            FOp::Churn { user, lp, rounds, amount, emergency } => self.op_churn(*user, *lp, *rounds, *amount, *emergency, st),
            FOp::ExitOneOfTwo { user, lp, amount, other, close_first } => self.op_exit_one_of_two(*user, *lp, *amount, *other, *close_first, st),
            FOp::Crowd { user, lp, n } => self.op_crowd(*user, *lp, *n, st),
            FOp::FillPositions { user, lp } => self.op_fill_positions(*user, *lp, st),
        }
    }

    fn op_crowd(&mut self, user: u8, lp: u8, n: u8, st: &mut Stats) -> Result<(), String> {
        let n = n.clamp(11, 13) as u32;
        let lp_denom = self.lp(lp);
        if self.max_farms < n {
            let owner = self.w.owner.clone();
            let mut msg = Self::update_config_msg();
            if let fm::ExecuteMsg::UpdateConfig { max_concurrent_farms, .. } = &mut msg {
                *max_concurrent_farms = Some(n);
            }
            if self.w.fm_exec(&owner, &msg, &[]).is_err() {
                return Ok(());
            }
            self.max_farms = n;
        }
        let now = self.w.now();
        for j in 0..(n + 2) {
            let live = self.l.farms.values().filter(|f| f.lp == lp_denom && !self.farm_expired(f, now)).count() as u32;
            if live >= n {
                break;
            }
            self.steps += 1;
            self.op_create_farm(user.wrapping_add(j as u8), lp, (j % 3) as u8, 1000 + 777 * j as u64, None, Some(3 + (j % 5) as u16), None, &Funds::Exact, st)?;
        }
        let live = self.l.farms.values().filter(|f| f.lp == lp_denom && !self.farm_expired(f, now)).count() as u32;
        if live >= 11 {
            st.bump("crowded LP token: >= 11 live farms");
        }
        self.steps += 1;
        self.op_open(user, lp, 1000, DAY, None, None, st)?;
        self.w.advance(2 * DAY);
        for u in self.w.users.clone() {
            if !self.l.open_positions_of(u.as_str()).is_empty() {
                self.steps += 1;
                self.do_claim(&u, None, st)?;
            }
        }
        Ok(())
    }

    fn op_fill_positions(&mut self, user: u8, lp: u8, st: &mut Stats) -> Result<(), String> {
        let owner = self.user(user);
        for j in 0..10u8 {
            if self.l.open_positions_of(owner.as_str()).len() >= 10 {
                break;
            }
            self.steps += 1;
            self.op_open(user, lp.wrapping_add(j % 2), 1000 + j as u128, DAY, None, None, st)?;
        }
        if self.l.open_positions_of(owner.as_str()).len() < 10 {
            return Ok(());
        }
        st.bump("user at the limit of 10 open positions");
        // through the pool manager the limit is the same (it counts the positions of whom the LP is locked for)
        for j in 0..2u8 {
            self.steps += 1;
            self.op_lock_via_pm(user, lp.wrapping_add(j), 1000, DAY, None, st)?;
        }
        let open: Vec<String> = self.l.open_positions_of(owner.as_str()).iter().map(|p| p.id.clone()).collect();
        if !open.is_empty() {
            self.steps += 1;
            self.op_close_pos(user, Self::idx_for(0, open.len()), &None, true, false, st)?;
        }
        self.w.advance(DAY);
        self.steps += 1;
        self.op_open(user, lp, 500, DAY, None, None, st)
    }

    fn op_exit_one_of_two(&mut self, user: u8, lp: u8, amount: u128, other: u128, close_first: bool, st: &mut Stats) -> Result<(), String> {
        let owner = self.user(user);
        let before: std::collections::BTreeSet<String> = self.l.positions_of(owner.as_str()).iter().map(|p| p.id.clone()).collect();
        self.op_open(user, lp, amount, DAY, None, None, st)?;
        let id = match self.l.positions_of(owner.as_str()).iter().find(|p| !before.contains(&p.id)) {
            Some(p) => p.id.clone(),
            None => return Ok(()),
        };
        self.steps += 1;
        self.op_open(user, lp, other, DAY, None, None, st)?;
        self.w.advance(DAY);
        self.steps += 1;
        self.do_claim(&owner, None, st)?;
        if close_first {
            let open: Vec<String> = self.l.open_positions_of(owner.as_str()).iter().map(|p| p.id.clone()).collect();
            if let Some(k) = open.iter().position(|x| *x == id) {
                self.steps += 1;
                self.op_close_pos(user, Self::idx_for(k, open.len()), &None, false, false, st)?;
            }
        }
        let all: Vec<String> = self.l.positions_of(owner.as_str()).iter().map(|p| p.id.clone()).collect();
        let Some(k) = all.iter().position(|x| *x == id) else { return Ok(()) };
        self.steps += 1;
        self.op_withdraw_pos(user, Self::idx_for(k, all.len()), Some(true), false, None, st)?;
        if self.l.positions.contains_key(&id) {
            return Ok(());
        }
        st.bump("one of two positions left by an emergency withdrawal");
        if self.penalty_bp == 0 {
            st.bump("one of two positions left by an emergency withdrawal at 0% penalty");
        }
        self.w.advance(2 * DAY);
        for u in self.w.users.clone() {
            if !self.l.open_positions_of(u.as_str()).is_empty() {
                self.steps += 1;
                self.do_claim(&u, None, st)?;
            }
        }
        Ok(())
    }

    /// index value that makes the ordinary operations pick element k of n
    fn idx_for(k: usize, n: usize) -> u16 {
        (((k << 16) + n - 1) / n.max(1)).min(65535) as u16
    }

    fn op_churn(&mut self, user: u8, lp: u8, rounds: u8, amount: u128, emergency: bool, st: &mut Stats) -> Result<(), String> {
        // prefer a user without open positions in that LP token (so that the exit is a full exit)
        let lp_denom = self.lp(lp);
        let mut user = user;
        for d in 0..4u8 {
            let u = self.user(user.wrapping_add(d));
            if !self.l.open_positions_of(u.as_str()).iter().any(|p| p.lp == lp_denom) {
                user = user.wrapping_add(d);
                break;
            }
        }
        let owner = self.user(user);
        let before: std::collections::BTreeSet<String> = self.l.positions_of(owner.as_str()).iter().map(|p| p.id.clone()).collect();
        self.op_open(user, lp, amount, DAY, None, None, st)?;
        let id = match self.l.positions_of(owner.as_str()).iter().find(|p| !before.contains(&p.id)) {
            Some(p) => p.id.clone(),
            None => return Ok(()),
        };
        for _ in 0..rounds {
            self.w.advance(DAY);
            let all: Vec<String> = self.l.positions_of(owner.as_str()).iter().map(|p| p.id.clone()).collect();
            let Some(k) = all.iter().position(|x| *x == id) else { return Ok(()) };
            self.steps += 1;
            self.op_expand_pos(0, user, Self::idx_for(k, all.len()), amount.max(1), st)?;
        }
        st.bump("long-lived position: topped up in >= 9 consecutive epochs without a claim");
        // full exit
        if emergency {
            let all: Vec<String> = self.l.positions_of(owner.as_str()).iter().map(|p| p.id.clone()).collect();
            let Some(k) = all.iter().position(|x| *x == id) else { return Ok(()) };
            self.steps += 1;
            self.op_withdraw_pos(user, Self::idx_for(k, all.len()), Some(true), false, None, st)?;
        } else {
            for claim_first in [false, true] {
                let open: Vec<String> = self.l.open_positions_of(owner.as_str()).iter().map(|p| p.id.clone()).collect();
                let Some(k) = open.iter().position(|x| *x == id) else { break };
                self.steps += 1;
                self.op_close_pos(user, Self::idx_for(k, open.len()), &None, claim_first, false, st)?;
            }
        }
        if self.l.open_positions_of(owner.as_str()).iter().any(|p| p.id == id) {
            return Ok(());
        }
        st.bump("long-lived position: full exit");
        self.w.advance(DAY);
        self.steps += 1;
        self.op_open(user, lp, amount, DAY, None, None, st)?;
        self.w.advance(DAY);
        self.steps += 1;
        self.op_open(user, lp, 1, DAY, None, None, st)
    }

    fn op_advance(&mut self, a: &Adv, st: &mut Stats) {
        let now = self.w.now();
        match a {
            Adv::Epochs(n) => self.w.advance(*n as u64 * DAY),
            Adv::Secs(s) => self.w.advance(*s as u64),
            Adv::ToUnlock { user, pos, delta } => {
                let owner = self.user(*user);
                let closed: Vec<u64> = self.l.positions_of(owner.as_str()).iter().filter_map(|p| p.expiring_at).collect();
                if !closed.is_empty() {
                    let t = (closed[pick_idx(*pos, closed.len())] as i128 + *delta as i128) as u64;
                    if t > now {
                        self.w.set_time(t);
                        st.bump("advanced to an unlock instant");
                    }
                }
            }
            Adv::ToFarmExpiry { farm, delta } => {
                if !self.l.farms.is_empty() {
                    let ids: Vec<String> = self.l.farms.keys().cloned().collect();
                    let f = &self.l.farms[&ids[pick_idx(*farm, ids.len())]];
                    let t = (GENESIS + (f.end + 1) * DAY + self.expiration) as i128 + *delta as i128;
                    if t as u64 > now && (t as u64) < now + 3 * YEAR {
                        self.w.set_time(t as u64);
                        st.bump("advanced to a farm expiry instant");
                    }
                }
            }
        }
    }

    fn update_config_msg() -> fm::ExecuteMsg {
        fm::ExecuteMsg::UpdateConfig {
            fee_collector_addr: None,
            epoch_manager_addr: None,
            pool_manager_addr: None,
            create_farm_fee: None,
            max_concurrent_farms: None,
            max_farm_epoch_buffer: None,
            min_unlocking_duration: None,
            max_unlocking_duration: None,
            farm_expiration_time: None,
            emergency_unlock_penalty: None,
        }
    }

    fn op_config(&mut self, which: u8, value: u32, st: &mut Stats) -> Result<(), String> {
        let owner = self.w.owner.clone();
        let mut msg = Self::update_config_msg();
        let mut sender = owner.clone();
        let mut funds = vec![];
        let mut apply: Box<dyn FnOnce(&mut FarmSim)> = Box::new(|_| {});
        let mut valid = true;
        if let fm::ExecuteMsg::UpdateConfig { create_farm_fee, max_concurrent_farms, farm_expiration_time, emergency_unlock_penalty, min_unlocking_duration, max_unlocking_duration, .. } = &mut msg {
            match which % 8 {
                0 => {
                    let bp = (value % 10_001) as u64;
                    *emergency_unlock_penalty = Some(dec_from_bp(bp));
                    apply = Box::new(move |s| s.penalty_bp = bp);
                }
                1 => {
                    let c = coin((value % 5000) as u128, self.fee.denom.clone());
                    *create_farm_fee = Some(c.clone());
                    apply = Box::new(move |s| s.fee = c);
                }
                2 => {
                    let t = MONTH + (value as u64 % MONTH);
                    *farm_expiration_time = Some(t);
                    apply = Box::new(move |s| s.expiration = t);
                }
                3 => {
                    let n = if self.max_farms >= 4 { self.max_farms } else { self.max_farms + 1 };
                    *max_concurrent_farms = Some(n);
                    apply = Box::new(move |s| s.max_farms = n);
                }
                4 => {
                    sender = self.user((value % 4) as u8);
                    *emergency_unlock_penalty = Some(dec_from_bp(5000));
                    valid = false;
                }
                6 => {
                    // a new maximum for NEW positions, inside [current minimum, one year]
                    let span = YEAR - self.min_dur;
                    let m = self.min_dur + if span == 0 || value % 7 == 0 { 0 } else { (value as u64 * 40_503) % (span + 1) };
                    *max_unlocking_duration = Some(m);
                    apply = Box::new(move |s| s.max_dur = m);
                }
                7 => {
                    // a new minimum, inside [one day, current maximum]
                    let span = self.max_dur - DAY;
                    let m = if value % 7 == 0 { self.max_dur } else { DAY + if span == 0 { 0 } else { (value as u64 * 40_503) % (span + 1) } };
                    *min_unlocking_duration = Some(m);
                    apply = Box::new(move |s| s.min_dur = m);
                }
                _ => {
                    funds = vec![coin(1, "uom")];
                    valid = false;
                }
            }
        }
        let what = format!("step {}: farm manager UpdateConfig variant {} by {}", self.steps, which % 8, self.label(sender.as_str()));
        let pre = Snapshot::take(&self.w);
        let r = self.w.fm_exec(&sender, &msg, &funds);
        let post = Snapshot::take(&self.w);
        let ok = r.is_ok();
        st.bump(if ok { "config: ok" } else { "config: rejected" });
        if ok != valid && (self.mon.c11 || self.mon.c08) {
            return Err(format!("[C15] {what}: accepted={ok}, expected {valid}"));
        }
        if ok {
            apply(self);
        }
        self.after_step_pub(&what, ok, &pre, &post, st)
    }

    /// assorted invalid messages: all must be rejected and leave no trace
    fn op_bad(&mut self, a: u8, b: u8, st: &mut Stats) -> Result<(), String> {
        let u = self.user(b);
        let lp = self.lp(b);
        let pre = Snapshot::take(&self.w);
        let (what, r): (&str, Result<_, String>) = match a % 8 {
            0 => ("claim with funds", self.w.fm_exec(&u, &fm::ExecuteMsg::Claim { until_epoch: None }, &[coin(1, "uom")])),
            1 => ("close a farm that does not exist", self.w.farm(&u, fm::FarmAction::Close { farm_identifier: "m-nope".into() }, &[])),
            2 => ("withdraw a position that does not exist", self.w.pos(&u, fm::PositionAction::Withdraw { identifier: "u-nope".into(), emergency_unlock: None }, &[])),
            3 => (
                "open a position with two coins",
                self.w.pos(&u, fm::PositionAction::Create { identifier: None, unlocking_duration: DAY, receiver: None }, &{
                    let mut f = vec![coin(10, &lp), coin(10, "uom")];
                    f.sort_by(|x, y| x.denom.cmp(&y.denom));
                    f
                }),
            ),
            4 => ("open a position with a non-LP denom", self.w.pos(&u, fm::PositionAction::Create { identifier: None, unlocking_duration: DAY, receiver: None }, &[coin(10, "uom")])),
            5 => (
                "expand a farm without naming it",
                self.w.farm(
                    &u,
                    fm::FarmAction::Expand { params: fm::FarmParams { lp_denom: lp.clone(), start_epoch: None, preliminary_end_epoch: None, curve: None, farm_asset: coin(1000, "uusdc"), farm_identifier: None } },
                    &[coin(1000, "uusdc")],
                ),
            ),
            6 => (
                "create a farm for a denom that is not an LP token of the pool manager",
                self.w.farm(
                    &u,
                    fm::FarmAction::Create { params: fm::FarmParams { lp_denom: "uom".into(), start_epoch: None, preliminary_end_epoch: None, curve: None, farm_asset: coin(5000, "uusdc"), farm_identifier: None } },
                    &[coin(5000, "uusdc")],
                ),
            ),
            _ => ("close a position with funds", self.w.pos(&u, fm::PositionAction::Close { identifier: "u-x0".into(), lp_asset: None }, &[coin(1, "uom")])),
        };
        let post = Snapshot::take(&self.w);
        let ok = r.is_ok();
        st.bump("invalid message sent");
        let what = format!("step {}: {what} by {}", self.steps, self.label(u.as_str()));
        if ok && (self.mon.c08 || self.mon.c11 || self.mon.c20) {
            return Err(format!("[C20] {what}: accepted"));
        }
        self.after_step_pub(&what, ok, &pre, &post, st)
    }

    /// C05's closing argument: everything recorded can actually be paid out, in a generated order.
    pub fn liquidate(&mut self, order_seed: u64, st: &mut Stats) -> Result<(), String> {
        // claim (so that closes are allowed), close every open position, wait, withdraw everything
        let users: Vec<Addr> = self.w.users.clone();
        let n = users.len();
        for k in 0..n {
            let u = users[(k + order_seed as usize) % n].clone();
            let opens: Vec<model::MPos> = self.l.open_positions_of(u.as_str()).into_iter().cloned().collect();
            for p in opens {
                let _ = self.w.claim(&u, None);
                // the two documented reasons a rightful close can be refused, read from the state
                // (not from the wording of the error): 10 closed positions already, unclaimable rewards
                let closed_count = self.w.all_positions(&u).iter().filter(|x| !x.open).count();
                let pending = match self.w.rewards(&u, None) {
                    Ok(c) => c.iter().any(|x| !x.amount.is_zero()),
                    Err(_) => true,
                };
                let r = self.w.pos(&u, fm::PositionAction::Close { identifier: p.id.clone(), lp_asset: None }, &[]);
                if let Err(e) = r {
                    // a user with 10 closed positions cannot close more before withdrawing: not a custody matter
                    if closed_count >= 10 || pending || e.contains("Maximum") || e.contains("maximum") || e.contains("exceeded") || e.contains("ending rewards") {
                        st.bump("liquidation: position left open (limit or unclaimable rewards)");
                        continue;
                    }
                    return Err(format!("[C05] liquidation: {} cannot close position {:?}: {e}", self.label(u.as_str()), p));
                }
            }
        }
        self.w.advance(YEAR + DAY);
        for k in 0..n {
            let u = users[(n - 1 - k + order_seed as usize) % n].clone();
            for p in self.w.all_positions(&u) {
                if p.open {
                    continue;
                }
                let before = self.w.balance(&u, &p.lp_asset.denom);
                let r = self.w.pos(&u, fm::PositionAction::Withdraw { identifier: p.identifier.clone(), emergency_unlock: None }, &[]);
                if let Err(e) = r {
                    return Err(format!("[C05] liquidation: position {} of {} cannot be withdrawn: {e}", p.identifier, self.label(u.as_str())));
                }
                let got = self.w.balance(&u, &p.lp_asset.denom) - before;
                if got != p.lp_asset.amount.u128() {
                    return Err(format!("[C05] liquidation: position {} recorded {} but paid {got}", p.identifier, p.lp_asset.amount));
                }
                st.bump("liquidation: positions withdrawn in full");
            }
        }
        let owner = self.w.owner.clone();
        for f in self.w.farms() {
            let before = self.w.balance(&f.owner, &f.farm_asset.denom);
            let rem = f.farm_asset.amount.u128().saturating_sub(f.claimed_amount.u128());
            let r = self.w.farm(&owner, fm::FarmAction::Close { farm_identifier: f.identifier.clone() }, &[]);
            if let Err(e) = r {
                return Err(format!("[C05] liquidation: farm {} cannot be closed: {e}", f.identifier));
            }
            let got = self.w.balance(&f.owner, &f.farm_asset.denom) - before;
            if got != rem {
                return Err(format!("[C05] liquidation: farm {} owed {rem} to its owner but refunded {got}", f.identifier));
            }
            st.bump("liquidation: farms refunded in full");
        }
        Ok(())
    }
}
