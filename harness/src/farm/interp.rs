//! Interpreter of farm histories: executes each generated op against the real contracts, keeps the
//! reference ledger, and evaluates the monitors of C05..C11 (and the rejection part of C20).
use std::collections::{BTreeMap, BTreeSet};

use cosmwasm_std::{coin, Addr, Coin, Decimal, Uint128};
use mantra_dex_std::farm_manager as fm;
use mantra_dex_std::pool_manager as pm;
use num_bigint::BigUint;

use super::model::*;
use super::ops::*;
use crate::framework::{pick, Stats};
use crate::world::{fees, Snapshot, World, WorldCfg, DAY as WDAY, GENESIS, MONTH};

#[derive(Debug, Clone, Copy, Default)]
pub struct FMon {
    pub c05: bool,
    pub c06: bool,
    pub c07: bool,
    pub c08: bool,
    pub c09: bool,
    pub c10: bool,
    pub c11: bool,
    pub c20: bool,
}

pub const REWARD_DENOMS: [&str; 3] = ["uusdc", "uweth", "ubtc"];

pub struct FarmSim {
    pub w: World,
    pub l: Ledger,
    pub cfg: FCfg,
    pub mon: FMon,
    pub lps: Vec<String>,
    pub pool_ids: Vec<String>,
    pub fee: Coin,
    pub penalty_bp: u64,
    pub expiration: u64,
    pub max_farms: u32,
    /// configured range of unlocking durations for NEW positions (existing ones keep theirs)
    pub min_dur: u64,
    pub max_dur: u64,
    /// receiver passed along with the next locked deposit through the pool manager
    pub pm_receiver: Option<String>,
    pub steps: usize,
    pub labels: BTreeMap<String, String>,
    /// (amount, duration, weight) of freshly added weight, for the pairwise monotonicity check
    pub weight_samples: Vec<(u128, u64, u128)>,
}

fn fee_coin(c: &FCfg) -> Coin {
    match c.fee_variant % 3 {
        0 => coin(0, "uom"),
        1 => coin(c.fee_amount as u128, "uusdc"),
        _ => coin(c.fee_amount as u128, "uom"),
    }
}

pub fn world_cfg(c: &FCfg) -> WorldCfg {
    let mut cfg = WorldCfg::default();
    let f = fee_coin(c);
    cfg.farm_fee = (f.amount.u128(), f.denom);
    cfg.max_concurrent_farms = c.max_farms.clamp(1, 3) as u32;
    cfg.emergency_penalty_bp = c.penalty_bp.min(10_000) as u64;
    cfg.pool_creation_fee = (1000, "uusd".into());
    cfg.tf_fees = vec![(1000, "uom".into())];
    cfg
}

impl FarmSim {
    pub fn new(cfg: &FCfg, mon: FMon) -> FarmSim {
        let mut w = World::new(world_cfg(cfg));
        let n_lp = cfg.n_lp.clamp(1, 3) as usize;
        let pairs = [("uom", "uusd"), ("uom", "uusdt"), ("uusd", "uusdt")];
        let mut lps = vec![];
        let mut pool_ids = vec![];
        let u0 = w.users[0].clone();
        for k in 0..n_lp {
            let id = format!("f{k}");
            w.create_pool(&u0, &[pairs[k].0, pairs[k].1], &[6, 6], fees(0, 0, 0, &[]), pm::PoolType::ConstantProduct, Some(&id))
                .expect("pool creation in the farm world");
            let full = format!("o.{id}");
            for i in 0..w.users.len() {
                let ui = w.users[i].clone();
                w.provide(&ui, &full, &[coin(1_000_000_000_000_000_000_000_000, pairs[k].0), coin(1_000_000_000_000_000_000_000_000, pairs[k].1)], None, None, None, None, None)
                    .expect("initial liquidity in the farm world");
            }
            lps.push(w.lp_denom(&full));
            pool_ids.push(full);
        }
        let labels = w.accounts().into_iter().map(|(l, a)| (a.to_string(), l)).collect();
        FarmSim {
            fee: fee_coin(cfg),
            penalty_bp: cfg.penalty_bp.min(10_000) as u64,
            expiration: MONTH,
            max_farms: cfg.max_farms.clamp(1, 3) as u32,
            min_dur: DAY,
            max_dur: YEAR,
            pm_receiver: None,
            w,
            l: Ledger::default(),
            cfg: cfg.clone(),
            mon,
            lps,
            pool_ids,
            steps: 0,
            labels,
            weight_samples: vec![],
        }
    }
    pub fn user(&self, i: u8) -> Addr {
        self.w.users[i as usize % self.w.users.len()].clone()
    }
    pub fn label(&self, a: &str) -> String {
        self.labels.get(a).cloned().unwrap_or_else(|| a.to_string())
    }
    pub fn lp(&self, i: u8) -> String {
        self.lps[i as usize % self.lps.len()].clone()
    }
    pub fn reward_denom(&self, i: u8) -> String {
        if (i as usize) < 3 {
            REWARD_DENOMS[i as usize].to_string()
        } else {
            self.lps[(i as usize - 3) % self.lps.len()].clone()
        }
    }
    pub fn epoch(&self) -> u64 {
        self.w.epoch()
    }
    pub fn farm_expired(&self, f: &MFarm, now: u64) -> bool {
        f.funded.saturating_sub(f.claimed) == 0 || GENESIS + (f.end + 1) * WDAY + self.expiration < now
    }

    /// read the weights the contract reports for the epoch after `e` and record them in the ledger
    pub fn sync_weights(&mut self, user: &str, lp: &str) {
        let e = self.epoch();
        let fm_addr = self.w.farm_manager.clone();
        if let Some(t) = self.w.lp_weight(&fm_addr, lp, e + 1) {
            self.l.total_w.entry(lp.to_string()).or_default().insert(e + 1, t);
        }
        let ua = Addr::unchecked(user);
        match self.w.lp_weight(&ua, lp, e + 1) {
            Some(wu) => {
                self.l.user_w.entry((user.to_string(), lp.to_string())).or_default().insert(e + 1, wu);
                self.l.hist_w.entry((user.to_string(), lp.to_string())).or_default().insert(e + 1, wu);
            }
            None => {
                // no snapshot for e+1: either the history was wiped (no open position left) or
                // nothing changed; a user that still has open positions keeps the previous value
                if self.l.has_open_in(user, lp) {
                    let prev = self.l.user_eff(user, lp, e + 1);
                    self.l.user_w.entry((user.to_string(), lp.to_string())).or_default().insert(e + 1, prev);
                    self.l.hist_w.entry((user.to_string(), lp.to_string())).or_default().insert(e + 1, prev);
                }
            }
        }
    }

    fn deltas(pre: &Snapshot, post: &Snapshot) -> BTreeMap<(String, String), i128> {
        let mut m = BTreeMap::new();
        let keys: BTreeSet<_> = pre.balances.keys().chain(post.balances.keys()).cloned().collect();
        for k in keys {
            let a = pre.balances.get(&k).copied().unwrap_or(0) as i128;
            let b = post.balances.get(&k).copied().unwrap_or(0) as i128;
            if a != b {
                m.insert(k, b - a);
            }
        }
        m
    }
    fn add(m: &mut BTreeMap<(String, String), i128>, who: &str, denom: &str, v: i128) {
        if v == 0 {
            return;
        }
        let k = (who.to_string(), denom.to_string());
        let e = m.entry(k.clone()).or_insert(0);
        *e += v;
        if *e == 0 {
            m.remove(&k);
        }
    }

    // --------------------------------------------------------------------------------------------
    // monitors evaluated after every step

    pub fn after_step_pub(&mut self, what: &str, ok: bool, pre: &Snapshot, post: &Snapshot, st: &mut Stats) -> Result<(), String> {
        if self.mon.c20 && !ok && pre != post {
            return Err(format!("[C20] {what} was rejected but left a trace: {}", pre.diff(post).join("; ")));
        }
        if self.mon.c20 && !ok {
            st.bump("c20: rejected messages compared");
        }
        if self.mon.c05 {
            self.check_custody(what, post)?;
        }
        if self.mon.c08 {
            self.check_positions_model(what)?;
        }
        if self.mon.c10 {
            self.check_weight_totals(what)?;
        }
        if self.mon.c11 {
            self.check_farms_model(what)?;
        }
        Ok(())
    }

    /// C05: the farm manager holds every recorded LP amount and every unclaimed reward
    fn check_custody(&self, what: &str, post: &Snapshot) -> Result<(), String> {
        let mut owed: BTreeMap<String, u128> = BTreeMap::new();
        let mut accounts: Vec<Addr> = self.w.users.clone();
        accounts.push(self.w.owner.clone());
        accounts.push(self.w.pool_manager.clone());
        for a in accounts.iter() {
            for p in self.w.all_positions(a) {
                *owed.entry(p.lp_asset.denom.clone()).or_insert(0) += p.lp_asset.amount.u128();
            }
        }
        for f in self.w.farms() {
            *owed.entry(f.farm_asset.denom.clone()).or_insert(0) += f.farm_asset.amount.u128().saturating_sub(f.claimed_amount.u128());
        }
        for (d, o) in owed {
            let have = post.bal("farm_manager", &d);
            if have < o {
                return Err(format!("[C05] after {what}: the farm manager holds {have} {d} but owes {o} (positions' LP + unclaimed farm budgets)"));
            }
        }
        Ok(())
    }

    /// C08: the positions the contract reports are exactly the model's
    fn check_positions_model(&self, what: &str) -> Result<(), String> {
        let mut seen = BTreeSet::new();
        let mut accounts: Vec<Addr> = self.w.users.clone();
        accounts.push(self.w.owner.clone());
        for a in accounts.iter() {
            for p in self.w.all_positions(a) {
                if !seen.insert(p.identifier.clone()) {
                    return Err(format!("[C08] after {what}: position identifier {} reported twice", p.identifier));
                }
                let got = MPos {
                    id: p.identifier.clone(),
                    owner: p.receiver.to_string(),
                    lp: p.lp_asset.denom.clone(),
                    amount: p.lp_asset.amount.u128(),
                    open: p.open,
                    dur: p.unlocking_duration,
                    expiring_at: p.expiring_at,
                };
                match self.l.positions.get(&p.identifier) {
                    Some(m) if *m == got => {}
                    Some(m) => return Err(format!("[C08] after {what}: position {} is {:?}, the documented rules give {:?}", p.identifier, got, m)),
                    None => return Err(format!("[C08] after {what}: unexpected position {:?}", got)),
                }
                if p.receiver != *a {
                    return Err(format!("[C08] after {what}: position {} listed under {} but owned by {}", p.identifier, a, p.receiver));
                }
            }
        }
        for (id, m) in self.l.positions.iter() {
            if !seen.contains(id) {
                return Err(format!("[C08] after {what}: position {:?} disappeared", m));
            }
        }
        Ok(())
    }

    /// C10: total >= sum of users, equal while nothing was split
    fn check_weight_totals(&self, what: &str) -> Result<(), String> {
        let e1 = self.epoch() + 1;
        for lp in self.lps.iter() {
            for ep in [e1 - 1, e1] {
                let tot = self.l.total_eff(lp, ep);
                let sum: u128 = self
                    .l
                    .hist_w
                    .iter()
                    .filter(|((_, l), _)| l == lp)
                    .map(|(_, m)| eff(Some(m), ep))
                    .sum();
                if tot < sum {
                    return Err(format!("[C10] after {what}: total weight {tot} of {lp} at epoch {ep} is below the sum of the users' weights {sum}"));
                }
                if !self.l.pieces.get(lp).copied().unwrap_or(false) && tot != sum {
                    return Err(format!("[C10] after {what}: total weight {tot} of {lp} at epoch {ep} differs from the sum of the users' weights {sum} although no position was split or topped up"));
                }
            }
        }
        Ok(())
    }

    /// C11: farms reported == model; never more unexpired farms per LP than configured
    fn check_farms_model(&self, what: &str) -> Result<(), String> {
        let farms = self.w.farms();
        let now = self.w.now();
        let mut per_lp: BTreeMap<String, u32> = BTreeMap::new();
        let mut seen = BTreeSet::new();
        for f in farms.iter() {
            seen.insert(f.identifier.clone());
            let got = MFarm {
                id: f.identifier.clone(),
                owner: f.owner.to_string(),
                lp: f.lp_denom.clone(),
                reward_denom: f.farm_asset.denom.clone(),
                funded: f.farm_asset.amount.u128(),
                claimed: f.claimed_amount.u128(),
                start: f.start_epoch,
                end: f.preliminary_end_epoch,
                rate: f.emission_rate.u128(),
            };
            match self.l.farms.get(&f.identifier) {
                Some(m) if *m == got => {}
                Some(m) => return Err(format!("[C11] after {what}: farm {} is {:?}, the documented rules give {:?}", f.identifier, got, m)),
                None => return Err(format!("[C11] after {what}: unexpected farm {:?}", got)),
            }
            if !self.farm_expired(&got, now) {
                *per_lp.entry(f.lp_denom.clone()).or_insert(0) += 1;
            }
        }
        for id in self.l.farms.keys() {
            if !seen.contains(id) {
                return Err(format!("[C11] after {what}: farm {id} disappeared"));
            }
        }
        for (lp, n) in per_lp {
            if n > self.max_farms {
                return Err(format!("[C11] after {what}: {n} unexpired farms on {lp}, the limit is {}", self.max_farms));
            }
        }
        Ok(())
    }

    // --------------------------------------------------------------------------------------------
    // claims (C06 / C07)

    pub fn do_claim(&mut self, who: &Addr, until: Option<u64>, st: &mut Stats) -> Result<bool, String> {
        let e = self.epoch();
        let user = who.to_string();
        let lbl = self.label(&user);
        let what = format!("step {}: Claim{{until_epoch: {:?}}} by {lbl} at epoch {e}", self.steps, until);
        let expect = expect_claim(&self.l, &user, until, e);
        let pre = Snapshot::take(&self.w);
        let q = self.w.rewards(who, until);
        let farms_before: BTreeMap<String, u128> = self.w.farms().into_iter().map(|f| (f.identifier, f.claimed_amount.u128())).collect();
        let r = self.w.claim(who, until);
        let post = Snapshot::take(&self.w);
        let ok = r.is_ok();
        let d = Self::deltas(&pre, &post);
        match (&expect, &r) {
            (ClaimExpect::Reject(why), Ok(_)) => {
                if self.mon.c06 || self.mon.c07 {
                    return Err(format!("[C06] {what}: accepted although it must be refused ({why})"));
                }
            }
            (ClaimExpect::Reject(_), Err(_)) => st.bump("claim: refused as expected"),
            (ClaimExpect::Pay(x), Err(err)) => {
                if self.mon.c06 || self.mon.c07 {
                    return Err(format!(
                        "[C06] {what}: a rightful claim failed ({}); the ledger entitles {:?}",
                        err.chars().take(120).collect::<String>(),
                        x.coins
                    ));
                }
            }
            (ClaimExpect::Pay(_), Ok(_)) if !(self.mon.c06 || self.mon.c07) => {
                st.bump("claim: ok");
            }
            (ClaimExpect::Pay(x), Ok(_)) => {
                // what was actually paid, from the bank
                let mut paid: BTreeMap<String, u128> = BTreeMap::new();
                for ((w_, dn), v) in d.iter() {
                    if *w_ == lbl {
                        if *v < 0 {
                            return Err(format!("[C06] {what}: the claimer's balance of {dn} fell by {}", -v));
                        }
                        paid.insert(dn.clone(), *v as u128);
                    } else if w_ != "farm_manager" {
                        return Err(format!("[C06] {what}: balance of {w_} changed by {v} {dn}"));
                    }
                }
                for (dn, v) in paid.iter() {
                    let fmd = d.get(&("farm_manager".to_string(), dn.clone())).copied().unwrap_or(0);
                    if fmd != -(*v as i128) {
                        return Err(format!("[C06] {what}: claimer received {v} {dn} but the farm manager's balance changed by {fmd}"));
                    }
                }
                // per-farm accounting from Farms{}
                let farms_after: BTreeMap<String, fm::Farm> = self.w.farms().into_iter().map(|f| (f.identifier.clone(), f)).collect();
                let mut by_farm: BTreeMap<String, u128> = BTreeMap::new();
                let mut by_denom_from_farms: BTreeMap<String, u128> = BTreeMap::new();
                for (id, f) in farms_after.iter() {
                    let before = farms_before.get(id).copied().unwrap_or(0);
                    let after = f.claimed_amount.u128();
                    if after < before {
                        return Err(format!("[C06] {what}: claimed amount of farm {id} decreased"));
                    }
                    if after > before {
                        by_farm.insert(id.clone(), after - before);
                        *by_denom_from_farms.entry(f.farm_asset.denom.clone()).or_insert(0) += after - before;
                    }
                    // cumulative bound: never more than funded, never more than rate x elapsed farm epochs
                    let elapsed = if e >= f.start_epoch { (e.min(f.preliminary_end_epoch - 1) + 1 - f.start_epoch) as u128 } else { 0 };
                    let cap = f.farm_asset.amount.u128().min(f.emission_rate.u128() * elapsed);
                    if after > cap {
                        return Err(format!(
                            "[C06] {what}: farm {id} has paid out {after}, more than min(funded {}, rate {} x {elapsed} elapsed epochs) = {cap}",
                            f.farm_asset.amount, f.emission_rate
                        ));
                    }
                }
                if by_denom_from_farms != paid {
                    return Err(format!("[C06] {what}: bank paid {:?} but farms account for {:?}", paid, by_denom_from_farms));
                }
                // never more than the ledger entitles (C06), exactly it (C07)
                for (dn, v) in paid.iter() {
                    let want = x.coins.get(dn).copied().unwrap_or(0);
                    if *v > want && (self.mon.c06 || self.mon.c07) {
                        return Err(format!(
                            "[C06] {what}: paid {v} {dn}, the ledger (emission x weight in effect / total weight, per unpaid farm-epoch) entitles {want}; cursor {:?}",
                            self.l.last_claimed.get(&user)
                        ));
                    }
                }
                if self.mon.c07 {
                    if paid != x.coins {
                        return Err(format!(
                            "[C07] {what}: paid {:?}, the per-epoch weight shares sum to {:?} (per farm: paid {:?}, expected {:?}); cursor {:?}",
                            paid,
                            x.coins,
                            by_farm,
                            x.per_farm,
                            self.l.last_claimed.get(&user)
                        ));
                    }
                    if by_farm != x.per_farm {
                        return Err(format!("[C07] {what}: per-farm payouts {:?} differ from the expected {:?}", by_farm, x.per_farm));
                    }
                    // the Rewards query equals what the claim paid
                    match &q {
                        Ok(coins) => {
                            let qm: BTreeMap<String, u128> = coins.iter().filter(|c| !c.amount.is_zero()).map(|c| (c.denom.clone(), c.amount.u128())).collect();
                            if qm != paid {
                                return Err(format!("[C07] {what}: Rewards query said {:?} but the claim paid {:?}", qm, paid));
                            }
                        }
                        Err(err) => return Err(format!("[C07] {what}: Rewards query failed ({err}) but the claim succeeded")),
                    }
                }
                // no (user, farm, epoch) paid twice
                for (f, ep, amt) in x.triples.iter() {
                    if self.l.paid.insert((user.clone(), f.clone(), *ep), *amt).is_some() {
                        return Err(format!("[C06] {what}: epoch {ep} of farm {f} paid twice to {lbl}"));
                    }
                }
                st.bump("claim: ok");
                let total: u128 = paid.values().sum();
                if total > 0 {
                    st.bump("claim: paid > 0");
                    if self.mon.c06 || self.mon.c07 {
                        st.mark();
                    }
                }
                if until.map(|u| u < e).unwrap_or(false) {
                    st.bump("claim: back-dated until_epoch");
                }
            }
        }
        if self.mon.c07 {
            if let (Err(_), Ok(_)) = (&q, &r) {
                return Err(format!("[C07] {what}: Rewards query fails while the claim succeeds"));
            }
        }
        // ledger update
        if ok {
            let until_eff = until.unwrap_or(e);
            self.l.last_claimed.insert(user.clone(), until_eff);
            // the claimed totals are the contract's unless C07 (exact shares) is the property under
            // test, in which case they are driven by the ledger and compared
            if let (true, ClaimExpect::Pay(x)) = (self.mon.c07, &expect) {
                for (fid, amt) in x.per_farm.iter() {
                    if let Some(m) = self.l.farms.get_mut(fid) {
                        m.claimed += *amt;
                    }
                }
            } else {
                for f in self.w.farms() {
                    if let Some(m) = self.l.farms.get_mut(&f.identifier) {
                        m.claimed = f.claimed_amount.u128();
                    }
                }
            }
        }
        if ok && self.mon.c10 {
            // a claim compacts the claimer's weight history; it must not change the weight that is in
            // effect in any epoch (in particular not pull a pending change forward)
            let until_eff = until.unwrap_or(e);
            let mut lps: Vec<String> = self.l.open_positions_of(&user).iter().map(|p| p.lp.clone()).collect();
            lps.sort();
            lps.dedup();
            for lp in lps {
                for ep in until_eff..=(e + 1).min(until_eff + 60) {
                    if let Some(v) = self.w.lp_weight(who, &lp, ep) {
                        let want = self.l.user_eff(&user, &lp, ep);
                        if v != want {
                            return Err(format!(
                                "[C10] {what}: afterwards the claimer's weight recorded for epoch {ep} is {v}, but the weight in effect that epoch is {want} (changes take effect from the epoch after the operation; total weight for that epoch: {})",
                                self.l.total_eff(&lp, ep)
                            ));
                        }
                    }
                }
            }
            st.bump("c10: weight history compared after a claim");
        }
        self.after_step_pub(&what, ok, &pre, &post, st)?;
        Ok(ok)
    }
}

// further op handlers live in ops_impl.rs
pub(crate) fn dec_from_bp(bp: u64) -> Decimal {
    Decimal::from_ratio(bp, 10_000u64)
}
pub(crate) fn big(x: u128) -> BigUint {
    BigUint::from(x)
}
pub(crate) fn u(x: u128) -> Uint128 {
    Uint128::new(x)
}
pub(crate) fn pick_idx(i: u16, n: usize) -> usize {
    pick(i, n)
}
