//! Operation alphabet and generators of the farm-history engine (engine F).
use proptest::prelude::*;
use serde::{Deserialize, Serialize};

pub const DAY: u64 = 86_400;
pub const YEAR: u64 = 31_556_926;
pub const HALF_YEAR: u64 = 15_778_463;

#[derive(Debug, Clone, Serialize, Deserialize, PartialEq)]
pub struct FCfg {
    /// 0: zero fee (in uom), 1: fee in uusdc (a reward denom), 2: fee in uom (never a reward denom)
    pub fee_variant: u8,
    pub fee_amount: u32,
    pub max_farms: u8,
    /// emergency penalty in basis points (0..=10000)
    pub penalty_bp: u16,
    /// number of LP tokens (pools) in the world: 1..=3
    pub n_lp: u8,
}

pub fn cfg_strat() -> impl Strategy<Value = FCfg> {
    (
        0u8..3,
        prop_oneof![3 => Just(1000u32), 1 => 1u32..100_000],
        1u8..=3,
        prop_oneof![3 => Just(1000u16), 1 => Just(0u16), 1 => Just(10000u16), 3 => 0u16..=10000],
        1u8..=3,
    )
        .prop_map(|(fee_variant, fee_amount, max_farms, penalty_bp, n_lp)| FCfg { fee_variant, fee_amount, max_farms, penalty_bp, n_lp })
}

#[derive(Debug, Clone, Serialize, Deserialize, PartialEq)]
pub enum Dur {
    Secs(u64),
}
pub fn dur_strat() -> impl Strategy<Value = u64> {
    prop_oneof![
        3 => Just(DAY),
        3 => DAY..=4 * DAY,
        2 => Just(YEAR),
        2 => Just(HALF_YEAR),
        1 => prop_oneof![Just(DAY + 1), Just(HALF_YEAR - 1), Just(HALF_YEAR + 1), Just(YEAR - 1)],
        6 => DAY..=YEAR,
        1 => prop_oneof![Just(DAY - 1), Just(YEAR + 1), Just(0u64), 0u64..DAY],
    ]
}

/// LP amounts for positions: tiny (where floors bite) to large
pub fn lp_amount() -> impl Strategy<Value = u128> {
    prop_oneof![
        3 => 1u128..=10,
        3 => 10u128..10_000,
        4 => 10_000u128..100_000_000_000,
        2 => (1u128..1000, 11u32..20).prop_map(|(m, e)| m * 10u128.pow(e)),
        1 => Just(1u128),
    ]
}

#[derive(Debug, Clone, Serialize, Deserialize, PartialEq)]
pub enum Funds {
    Exact,
    /// fee overpaid by this much (refund expected when the fee denom differs from the reward denom)
    FeeOver(u32),
    FeeUnder,
    NoFee,
    ExtraCoin,
    RewardShort,
    RewardOver,
    NoReward,
}

#[derive(Debug, Clone, Serialize, Deserialize, PartialEq)]
pub enum Until {
    None,
    /// current epoch - k
    Back(u8),
    /// last claimed epoch + k - 1 (k = 0: one before the cursor, invalid)
    FromCursor(u8),
    Future,
}

#[derive(Debug, Clone, Serialize, Deserialize, PartialEq)]
pub enum Adv {
    Epochs(u8),
    Secs(u32),
    /// to the unlock instant of one of the user's closed positions, plus delta seconds (-1, 0, +1)
    ToUnlock { user: u8, pos: u16, delta: i8 },
    /// to the expiry instant of a farm (end epoch + 1 start + expiration), plus delta
    ToFarmExpiry { farm: u16, delta: i8 },
}

#[derive(Debug, Clone, Serialize, Deserialize, PartialEq)]
pub enum FOp {
    Farm {
        user: u8,
        lp: u8,
        /// 0..=2: uusdc, uweth, ubtc; 3..: an LP denom
        reward: u8,
        amount: u64,
        /// start epoch = current + start (None: default)
        start: Option<u8>,
        /// length in epochs (None: default)
        len: Option<u16>,
        id: Option<u8>,
        funds: Funds,
    },
    ExpandFarm { by_owner: bool, farm: u16, epochs: u8, exact_multiple: bool, wrong_denom: bool },
    /// by: 0 farm owner, 1 contract owner, 2 stranger
    CloseFarm { by: u8, farm: u16 },
    Open { user: u8, lp: u8, amount: u128, dur: u64, id: Option<u8>, for_other: Option<u8> },
    /// by: 0 owner, 1 another user, 2 pool manager (locked deposit naming the position)
    ExpandPos { by: u8, user: u8, pos: u16, amount: u128 },
    ClosePos { user: u8, pos: u16, part: Option<Part>, claim_first: bool, by_other: bool },
    /// at_unlock: first move the clock to the position's unlock instant + delta seconds
    WithdrawPos { user: u8, pos: u16, emergency: Option<bool>, by_other: bool, at_unlock: Option<i8> },
    /// deposit through the pool manager with an unlocking duration (creates / expands a position)
    LockViaPm { user: u8, lp: u8, amount: u64, dur: u64, id: Option<u8> },
    Claim { user: u8, until: Until },
    Advance(Adv),
    /// farm manager UpdateConfig: 0 penalty, 1 fee, 2 expiration, 3 max farms (+1), 4 by a stranger, 5 with funds,
    /// 6 maximum unlocking duration, 7 minimum unlocking duration (for new positions)
    Config { which: u8, value: u32 },
    /// other invalid messages
    Bad(u8, u8),
    /// a position kept for many epochs: open, one top-up per epoch for `rounds` epochs without
    /// claiming, full exit (close, or emergency withdrawal), next epoch a fresh position - every
    /// step through the ordinary operations and their monitors
    Churn { user: u8, lp: u8, rounds: u8, amount: u128, emergency: bool },
    /// two positions of one user in one LP token; after an epoch one of them leaves by an emergency
    /// withdrawal (open) or by close + emergency withdrawal, the other stays; two epochs later
    /// everybody claims - the leaver must be paid for what is still staked only
    ExitOneOfTwo { user: u8, lp: u8, amount: u128, other: u128, close_first: bool },
    /// a crowded LP token: the limit is raised to n (11-13), farms are created on one LP token until
    /// n are live, somebody stakes, two epochs later everybody claims
    Crowd { user: u8, lp: u8, n: u8 },
    /// a user at the limit of 10 open positions: positions are opened until there are 10, two more are
    /// tried through the pool manager (must be refused), one is closed in full, a new one opened
    FillPositions { user: u8, lp: u8 },
}

#[derive(Debug, Clone, Serialize, Deserialize, PartialEq)]
pub enum Part {
    /// share of the position in ppm
    Ppm(u32),
    Units(u8),
    /// amount - 1, amount, amount + 1
    AroundAll(i8),
    WrongDenom,
}

fn user() -> impl Strategy<Value = u8> {
    0u8..4
}

pub fn farm_strat() -> impl Strategy<Value = FOp> {
    (
        user(),
        0u8..3,
        prop_oneof![6 => 0u8..3, 2 => 3u8..6],
        prop_oneof![6 => 1000u64..10_000_000, 2 => Just(1000u64), 1 => 0u64..1000, 2 => 10_000_000u64..1_000_000_000_000],
        proptest::option::weighted(0.8, prop_oneof![8 => 1u8..4, 1 => Just(0u8), 1 => 4u8..20]),
        proptest::option::weighted(0.8, prop_oneof![16 => 1u16..12, 2 => Just(0u16), 2 => 12u16..40, 1 => 900u16..3000]),
        proptest::option::weighted(0.3, 0u8..5),
        prop_oneof![
            10 => Just(Funds::Exact),
            2 => (1u32..5000).prop_map(Funds::FeeOver),
            1 => Just(Funds::FeeUnder),
            1 => Just(Funds::NoFee),
            1 => Just(Funds::ExtraCoin),
            1 => Just(Funds::RewardShort),
            1 => Just(Funds::RewardOver),
            1 => Just(Funds::NoReward),
        ],
    )
        .prop_map(|(user, lp, reward, amount, start, len, id, funds)| FOp::Farm { user, lp, reward, amount, start, len, id, funds })
}

pub fn open_strat() -> impl Strategy<Value = FOp> {
    (user(), 0u8..3, lp_amount(), dur_strat(), proptest::option::weighted(0.3, 0u8..6), proptest::option::weighted(0.08, 0u8..4))
        .prop_map(|(user, lp, amount, dur, id, for_other)| FOp::Open { user, lp, amount, dur, id, for_other })
}

pub fn part_strat() -> impl Strategy<Value = Part> {
    prop_oneof![
        5 => (1u32..1_000_000).prop_map(Part::Ppm),
        2 => (1u8..5).prop_map(Part::Units),
        3 => (-1i8..=1).prop_map(Part::AroundAll),
        1 => Just(Part::WrongDenom),
    ]
}

pub fn until_strat() -> impl Strategy<Value = Until> {
    prop_oneof![
        5 => Just(Until::None),
        3 => (0u8..5).prop_map(Until::Back),
        3 => (0u8..6).prop_map(Until::FromCursor),
        1 => Just(Until::Future),
    ]
}

pub fn adv_strat() -> impl Strategy<Value = Adv> {
    prop_oneof![
        7 => prop_oneof![6 => 1u8..3, 2 => 3u8..12, 1 => 12u8..40, 1 => Just(0u8)].prop_map(Adv::Epochs),
        1 => (0u32..200_000).prop_map(Adv::Secs),
        5 => (user(), any::<u16>(), -1i8..=1).prop_map(|(user, pos, delta)| Adv::ToUnlock { user, pos, delta }),
        1 => (any::<u16>(), -1i8..=1).prop_map(|(farm, delta)| Adv::ToFarmExpiry { farm, delta }),
    ]
}

#[derive(Debug, Clone, Copy)]
pub struct FWeights {
    pub farm: u32,
    pub expand_farm: u32,
    pub close_farm: u32,
    pub open: u32,
    pub expand_pos: u32,
    pub close_pos: u32,
    pub withdraw: u32,
    pub lock_pm: u32,
    pub claim: u32,
    pub advance: u32,
    pub config: u32,
    pub bad: u32,
}

/// weight of the long-lived-position composite relative to the others (fixed)
pub const CHURN_WEIGHT: u32 = 1;

impl Default for FWeights {
    fn default() -> Self {
        FWeights { farm: 5, expand_farm: 2, close_farm: 2, open: 8, expand_pos: 5, close_pos: 5, withdraw: 5, lock_pm: 2, claim: 10, advance: 9, config: 1, bad: 1 }
    }
}

pub fn op_strat(w: FWeights) -> impl Strategy<Value = FOp> {
    let all: Vec<(u32, BoxedStrategy<FOp>)> = vec![
        (w.farm, farm_strat().boxed()),
        (
            w.expand_farm,
            (proptest::bool::weighted(0.85), any::<u16>(), 1u8..6, proptest::bool::weighted(0.85), proptest::bool::weighted(0.05))
                .prop_map(|(by_owner, farm, epochs, exact_multiple, wrong_denom)| FOp::ExpandFarm { by_owner, farm, epochs, exact_multiple, wrong_denom })
                .boxed(),
        ),
        (w.close_farm, (prop_oneof![5 => Just(0u8), 2 => Just(1u8), 2 => Just(2u8)], any::<u16>()).prop_map(|(by, farm)| FOp::CloseFarm { by, farm }).boxed()),
        (w.open, open_strat().boxed()),
        (
            w.expand_pos,
            (prop_oneof![8 => Just(0u8), 1 => Just(1u8), 2 => Just(2u8), 1 => Just(5u8), 1 => Just(8u8), 2 => Just(11u8)], user(), any::<u16>(), lp_amount())
                .prop_map(|(by, user, pos, amount)| FOp::ExpandPos { by, user, pos, amount })
                .boxed(),
        ),
        (
            w.close_pos,
            (user(), any::<u16>(), proptest::option::weighted(0.5, part_strat()), proptest::bool::weighted(0.85), proptest::bool::weighted(0.06))
                .prop_map(|(user, pos, part, claim_first, by_other)| FOp::ClosePos { user, pos, part, claim_first, by_other })
                .boxed(),
        ),
        (
            w.withdraw,
            (user(), any::<u16>(), prop_oneof![4 => Just(None), 4 => Just(Some(true)), 1 => Just(Some(false))], proptest::bool::weighted(0.06), proptest::option::weighted(0.4, -1i8..=1))
                .prop_map(|(user, pos, emergency, by_other, at_unlock)| FOp::WithdrawPos { user, pos, emergency, by_other, at_unlock })
                .boxed(),
        ),
        (
            w.lock_pm,
            (user(), 0u8..3, 1000u64..1_000_000, dur_strat(), proptest::option::weighted(0.5, prop_oneof![4 => 0u8..6, 1 => 6u8..9]))
                .prop_map(|(user, lp, amount, dur, id)| FOp::LockViaPm { user, lp, amount, dur, id })
                .boxed(),
        ),
        (w.claim, (user(), until_strat()).prop_map(|(user, until)| FOp::Claim { user, until }).boxed()),
        (w.advance, adv_strat().prop_map(FOp::Advance).boxed()),
        (w.config, (0u8..8, any::<u32>()).prop_map(|(which, value)| FOp::Config { which, value }).boxed()),
        (w.bad, (0u8..8, 0u8..4).prop_map(|(a, b)| FOp::Bad(a, b)).boxed()),
        (
            if w.open > 0 && w.expand_pos > 0 { CHURN_WEIGHT } else { 0 },
            (user(), 0u8..3, 9u8..16, lp_amount(), proptest::bool::weighted(0.3)).prop_map(|(user, lp, rounds, amount, emergency)| FOp::Churn { user, lp, rounds, amount, emergency }).boxed(),
        ),
        (
            if w.farm > 0 && w.claim > 0 && w.open > 0 { CHURN_WEIGHT } else { 0 },
            (user(), 0u8..3, 11u8..=13).prop_map(|(user, lp, n)| FOp::Crowd { user, lp, n }).boxed(),
        ),
        (
            if w.open > 0 && w.close_pos > 0 && w.lock_pm > 0 { CHURN_WEIGHT } else { 0 },
            (user(), 0u8..3).prop_map(|(user, lp)| FOp::FillPositions { user, lp }).boxed(),
        ),
        (
            if w.open > 0 && w.withdraw > 0 && w.claim > 0 { CHURN_WEIGHT } else { 0 },
            (user(), 0u8..3, lp_amount(), lp_amount(), proptest::bool::weighted(0.3))
                .prop_map(|(user, lp, amount, other, close_first)| FOp::ExitOneOfTwo { user, lp, amount, other, close_first })
                .boxed(),
        ),
    ];
    proptest::strategy::Union::new_weighted(all.into_iter().filter(|(w, _)| *w > 0).collect())
}

#[derive(Debug, Clone, Serialize, Deserialize, PartialEq)]
pub struct FarmCase {
    pub cfg: FCfg,
    pub ops: Vec<FOp>,
}

/// a farm that is valid by construction under every fee configuration (Funds::Exact, default-ish epochs)
pub fn good_farm_strat() -> impl Strategy<Value = FOp> {
    (user(), 0u8..3, prop_oneof![6 => 0u8..3, 1 => 3u8..6], 1000u64..10_000_000, proptest::option::of(1u8..3), proptest::option::of(2u16..10))
        .prop_map(|(user, lp, reward, amount, start, len)| FOp::Farm { user, lp, reward, amount, start, len, id: None, funds: Funds::Exact })
}

pub fn case_strat(w: FWeights, max_ops: usize) -> impl Strategy<Value = FarmCase> {
    (
        cfg_strat(),
        // prelude: a few positions and farms, then some epochs, so that histories start in a state
        // where rewards flow (every prelude op is an ordinary op and is checked like the others)
        proptest::collection::vec(open_strat(), 1..4),
        proptest::collection::vec(good_farm_strat(), 0..3),
        1u8..5,
        proptest::collection::vec(op_strat(w), 5..max_ops),
    )
        .prop_map(|(cfg, opens, farms, epochs, rest)| {
            let mut ops = opens;
            ops.extend(farms);
            ops.push(FOp::Advance(Adv::Epochs(epochs)));
            ops.extend(rest);
            FarmCase { cfg, ops }
        })
}
