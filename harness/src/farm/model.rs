//! The reference ledger of the farm engine: the checker's own record of positions, farms,
//! weights in effect per epoch and claim cursors, updated only by the documented rules.
use std::collections::BTreeMap;

use num_bigint::BigUint;

#[derive(Debug, Clone, PartialEq, Eq)]
pub struct MPos {
    pub id: String,
    pub owner: String,
    pub lp: String,
    pub amount: u128,
    pub open: bool,
    pub dur: u64,
    pub expiring_at: Option<u64>,
}

#[derive(Debug, Clone, PartialEq, Eq)]
pub struct MFarm {
    pub id: String,
    pub owner: String,
    pub lp: String,
    pub reward_denom: String,
    pub funded: u128,
    pub claimed: u128,
    pub start: u64,
    pub end: u64,
    pub rate: u128,
}

#[derive(Default, Clone)]
pub struct Ledger {
    pub positions: BTreeMap<String, MPos>,
    pub farms: BTreeMap<String, MFarm>,
    /// (user address, lp) -> effective epoch -> weight
    pub user_w: BTreeMap<(String, String), BTreeMap<u64, u128>>,
    /// the same, but never wiped: what was in effect in each epoch (used for total >= sum of users)
    pub hist_w: BTreeMap<(String, String), BTreeMap<u64, u128>>,
    /// lp -> effective epoch -> total weight
    pub total_w: BTreeMap<String, BTreeMap<u64, u128>>,
    pub last_claimed: BTreeMap<String, u64>,
    /// LP tokens on which a position was topped up in pieces or partially closed
    pub pieces: BTreeMap<String, bool>,
    /// (user, farm, epoch) triples already paid — must never repeat
    pub paid: BTreeMap<(String, String, u64), u128>,
}

pub fn eff(m: Option<&BTreeMap<u64, u128>>, e: u64) -> u128 {
    m.and_then(|m| m.range(..=e).next_back().map(|(_, v)| *v)).unwrap_or(0)
}

impl Ledger {
    pub fn user_eff(&self, user: &str, lp: &str, e: u64) -> u128 {
        eff(self.user_w.get(&(user.to_string(), lp.to_string())), e)
    }
    pub fn total_eff(&self, lp: &str, e: u64) -> u128 {
        eff(self.total_w.get(lp), e)
    }
    pub fn open_positions_of(&self, user: &str) -> Vec<&MPos> {
        self.positions.values().filter(|p| p.owner == user && p.open).collect()
    }
    pub fn positions_of(&self, user: &str) -> Vec<&MPos> {
        self.positions.values().filter(|p| p.owner == user).collect()
    }
    pub fn has_open_in(&self, user: &str, lp: &str) -> bool {
        self.positions.values().any(|p| p.owner == user && p.open && p.lp == lp)
    }
    /// after a position change: drop cursors/history exactly as the documentation says
    pub fn reconcile(&mut self, user: &str, lp: &str, next_epoch: u64) {
        if self.open_positions_of(user).is_empty() {
            self.last_claimed.remove(user);
        }
        if !self.has_open_in(user, lp) {
            self.user_w.remove(&(user.to_string(), lp.to_string()));
            self.hist_w.entry((user.to_string(), lp.to_string())).or_default().insert(next_epoch, 0);
        }
    }
}

/// What a claim (or Rewards query) with `until` must pay, from the ledger alone.
pub struct Expected {
    /// reward denom -> amount
    pub coins: BTreeMap<String, u128>,
    /// farm id -> amount
    pub per_farm: BTreeMap<String, u128>,
    /// (farm, epoch, amount) with amount > 0
    pub triples: Vec<(String, u64, u128)>,
}

pub enum ClaimExpect {
    /// must be rejected, with the reason
    Reject(&'static str),
    Pay(Expected),
}

pub fn expect_claim(l: &Ledger, user: &str, until: Option<u64>, current_epoch: u64) -> ClaimExpect {
    let open = l.open_positions_of(user);
    if open.is_empty() {
        return ClaimExpect::Reject("no open positions");
    }
    let until_eff = match until {
        Some(u) if u > current_epoch => return ClaimExpect::Reject("until_epoch in the future"),
        Some(u) => u,
        None => current_epoch,
    };
    let cursor = l.last_claimed.get(user).copied();
    let mut exp = Expected { coins: BTreeMap::new(), per_farm: BTreeMap::new(), triples: vec![] };
    if let Some(c) = cursor {
        if until_eff < c {
            return ClaimExpect::Reject("until_epoch before the last claimed epoch");
        }
        if until_eff == c {
            return ClaimExpect::Pay(exp);
        }
    }
    let mut lps: Vec<String> = open.iter().map(|p| p.lp.clone()).collect();
    lps.sort();
    lps.dedup();
    for lp in lps {
        let start_from = match cursor {
            Some(c) => c + 1,
            None => match l.user_w.get(&(user.to_string(), lp.clone())).and_then(|m| m.keys().next().copied()) {
                Some(e) => e,
                None => continue,
            },
        };
        for f in l.farms.values().filter(|f| f.lp == lp) {
            if f.start > until_eff || f.end == 0 {
                continue;
            }
            let last = until_eff.min(f.end - 1);
            let mut ep = start_from.max(f.start);
            while ep <= last {
                let wt = l.total_eff(&lp, ep);
                if wt > 0 {
                    let wu = l.user_eff(user, &lp, ep);
                    let r = BigUint::from(f.rate) * BigUint::from(wu) / BigUint::from(wt);
                    let r = u128::try_from(r).unwrap_or(u128::MAX);
                    if r > 0 {
                        *exp.coins.entry(f.reward_denom.clone()).or_insert(0) += r;
                        *exp.per_farm.entry(f.id.clone()).or_insert(0) += r;
                        exp.triples.push((f.id.clone(), ep, r));
                    }
                }
                ep += 1;
            }
        }
    }
    ClaimExpect::Pay(exp)
}
