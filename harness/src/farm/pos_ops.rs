//! Position ops (create / expand / close / withdraw / emergency / locked deposit) with the C08,
//! C09 and C10 oracles.
use std::collections::BTreeMap;

use cosmwasm_std::{coin, Addr, Coin, Decimal};
use mantra_dex_std::farm_manager as fm;
use num_bigint::BigUint;
use num_traits::Zero;

use super::interp::*;
use super::model::*;
use super::ops::*;
use crate::framework::Stats;
use crate::world::Snapshot;

/// exact weight multiplier: the parabola through (1 day, 1), (half a year, 5), (a year, 16),
/// as (numerator, denominator)
pub fn multiplier(d: u64) -> (BigUint, BigUint) {
    let xs = [DAY as i128, HALF_YEAR as i128, YEAR as i128];
    let ys = [1i128, 5, 16];
    let d = d as i128;
    // common denominator: product of all (xi - xj), i != j handled per term
    let mut num = num_bigint::BigInt::zero();
    let den_all: num_bigint::BigInt = {
        let mut p = num_bigint::BigInt::from(1);
        for i in 0..3 {
            for j in 0..3 {
                if i != j {
                    p *= num_bigint::BigInt::from(xs[i] - xs[j]);
                }
            }
        }
        p
    };
    for i in 0..3 {
        let mut t = num_bigint::BigInt::from(ys[i]);
        let mut den_i = num_bigint::BigInt::from(1);
        for j in 0..3 {
            if i != j {
                t *= num_bigint::BigInt::from(d - xs[j]);
                den_i *= num_bigint::BigInt::from(xs[i] - xs[j]);
            }
        }
        num += t * (&den_all / den_i);
    }
    let (n, dd) = if den_all < num_bigint::BigInt::zero() { (-num, -den_all) } else { (num, den_all) };
    (n.to_biguint().unwrap_or_default(), dd.to_biguint().unwrap_or_default())
}

/// bounds on the weight of `amount` locked for `d`: [lo, hi]
pub fn weight_bounds(amount: u128, d: u64) -> (BigUint, BigUint) {
    let (n, dd) = multiplier(d);
    let hi = (big(amount) * &n / &dd).max(big(amount));
    // the contract floors three 18-digit terms and one product
    let slack = big(1) + big(amount) * big(4) / big(1_000_000_000_000_000_000);
    let lo = if hi > &slack + big(amount) { &hi - &slack } else { big(amount) };
    (lo.max(big(amount)), hi)
}

pub struct WPre {
    pub cur: Option<u128>,
    pub next_eff: u128,
    pub tot_next_eff: u128,
}

impl FarmSim {
    pub fn weights_pre(&self, user: &str, lp: &str) -> WPre {
        let e = self.epoch();
        WPre {
            cur: self.w.lp_weight(&Addr::unchecked(user), lp, e),
            next_eff: self.l.user_eff(user, lp, e + 1),
            tot_next_eff: self.l.total_eff(lp, e + 1),
        }
    }

    /// C10: a position change takes effect from the next epoch, by a weight within [amount, 16 amount]
    fn check_weight_change(&mut self, what: &str, user: &str, lp: &str, pre: &WPre, added: u128, removed: u128, dur: u64, st: &mut Stats) -> Result<(), String> {
        let e = self.epoch();
        self.sync_weights(user, lp);
        if (self.mon.c06 || self.mon.c07) && !self.mon.c10 && removed > 0 {
            // "no user is paid for an epoch ... after [the position's weight] stopped": LP that
            // left a position must stop weighing from the next epoch
            let tag = if self.mon.c06 { "C06" } else { "C07" };
            let after = self.l.user_eff(user, lp, self.epoch() + 1);
            let dec = pre.next_eff.saturating_sub(after);
            if after > 0 && dec < removed {
                return Err(format!(
                    "[{tag}] {what}: {removed} LP left the position but the owner's weight in effect from the next epoch fell by only {dec} ({} -> {after}): rewards would still be paid for LP that is no longer staked",
                    pre.next_eff
                ));
            }
            if after > 0 && !self.l.has_open_in(user, lp) {
                return Err(format!("[{tag}] {what}: {} has no open position in this LP token any more but keeps weight {after} from the next epoch", self.label(user)));
            }
            st.bump("weight stopped for LP that left a position");
        }
        if (self.mon.c06 || self.mon.c07) && !self.mon.c10 && added > 0 {
            // exact shares presuppose that a deposit's weight is credited to the position's owner
            let after = self.l.user_eff(user, lp, self.epoch() + 1);
            let (lo, hi) = weight_bounds(added, dur);
            let w_new = after.saturating_sub(pre.next_eff);
            if big(w_new) < lo || big(w_new) > hi {
                return Err(format!(
                    "[{}] {what}: adding {added} LP for {dur}s changed the owner's weight in effect from the next epoch by {w_new}; the weight curve gives [{lo}, {hi}] — rewards are shares of this weight",
                    if self.mon.c07 { "C07" } else { "C06" }
                ));
            }
        }
        if !self.mon.c10 {
            return Ok(());
        }
        let still_open = self.l.has_open_in(user, lp);
        let post_cur = self.w.lp_weight(&Addr::unchecked(user), lp, e);
        if still_open && post_cur != pre.cur {
            return Err(format!("[C10] {what}: the weight in effect in the current epoch {e} changed {:?} -> {:?}; changes take effect from the next epoch", pre.cur, post_cur));
        }
        if !still_open {
            // a user without open positions in an LP token has no weight in it
            for ep in [e.saturating_sub(1), e, e + 1, e + 2] {
                if let Some(wv) = self.w.lp_weight(&Addr::unchecked(user), lp, ep) {
                    return Err(format!("[C10] {what}: {} has no open position in this LP token but still has weight {wv} at epoch {ep}", self.label(user)));
                }
            }
            st.bump("c10: user left an LP token");
            return Ok(());
        }
        let after = self.l.user_eff(user, lp, e + 1);
        let tot_after = self.l.total_eff(lp, e + 1);
        if added > 0 {
            let w_new = after.checked_sub(pre.next_eff).ok_or_else(|| format!("[C10] {what}: weight fell on a deposit"))?;
            let (lo, hi) = weight_bounds(added, dur);
            if big(w_new) < big(added) || big(w_new) > big(added) * big(16) {
                return Err(format!("[C10] {what}: adding {added} LP for {dur}s gave weight {w_new}, outside [amount, 16 x amount]"));
            }
            if big(w_new) < lo || big(w_new) > hi {
                return Err(format!("[C10] {what}: adding {added} LP for {dur}s gave weight {w_new}; the weight curve through (1 day,1x) (half year,5x) (year,16x) gives [{lo}, {hi}]"));
            }
            if tot_after.checked_sub(pre.tot_next_eff) != Some(w_new) {
                return Err(format!("[C10] {what}: user weight grew by {w_new} but the total went {} -> {tot_after}", pre.tot_next_eff));
            }
            // non-decreasing in amount and in duration, pairwise over everything seen in this history
            for (a2, d2, w2) in self.weight_samples.iter() {
                if (*a2 <= added && *d2 <= dur && *w2 > w_new) || (*a2 >= added && *d2 >= dur && *w2 < w_new) {
                    return Err(format!("[C10] {what}: weight is not monotone: ({a2} LP, {d2}s) -> {w2} but ({added} LP, {dur}s) -> {w_new}"));
                }
            }
            if self.weight_samples.len() < 64 {
                self.weight_samples.push((added, dur, w_new));
            }
            st.bump("c10: weight added");
        }
        if removed > 0 {
            let dec = pre.next_eff.checked_sub(after).ok_or_else(|| format!("[C10] {what}: weight grew on a close"))?;
            if big(dec) > big(removed) * big(16) {
                return Err(format!("[C10] {what}: closing {removed} LP removed weight {dec} > 16 x amount"));
            }
            if dec < removed && after != 0 {
                return Err(format!("[C10] {what}: closing {removed} LP removed only weight {dec}"));
            }
            let tdec = pre.tot_next_eff.checked_sub(tot_after).ok_or_else(|| format!("[C10] {what}: total weight grew on a close"))?;
            if tdec != dec {
                return Err(format!("[C10] {what}: user weight fell by {dec} but the total fell by {tdec}"));
            }
            st.bump("c10: weight removed");
        }
        Ok(())
    }

    fn new_position_of(&self, owner: &Addr) -> Option<fm::Position> {
        self.w.all_positions(owner).into_iter().find(|p| !self.l.positions.contains_key(&p.identifier))
    }

    pub fn op_open(&mut self, user: u8, lp: u8, amount: u128, dur: u64, id: Option<u8>, for_other: Option<u8>, st: &mut Stats) -> Result<(), String> {
        let sender = self.user(user);
        let lp = self.lp(lp);
        if self.w.balance(&sender, &lp) < amount || amount == 0 {
            return Ok(());
        }
        let receiver = for_other.map(|o| self.user(o));
        let owner = receiver.clone().unwrap_or(sender.clone());
        let identifier = id.map(|k| format!("x{k}"));
        let full = identifier.as_ref().map(|i| format!("u-{i}"));
        let valid = (self.min_dur..=self.max_dur).contains(&dur)
            && receiver.as_ref().map(|r| *r == sender).unwrap_or(true)
            && full.as_ref().map(|f| !self.l.positions.contains_key(f)).unwrap_or(true)
            && self.l.open_positions_of(owner.as_str()).len() < 10;
        let what = format!(
            "step {}: {} opens a position of {amount} {} for {dur}s id {:?} receiver {:?} (epoch {})",
            self.steps,
            self.label(sender.as_str()),
            super::farm_ops::short_denom(&lp),
            identifier,
            receiver.as_ref().map(|r| self.label(r.as_str())),
            self.epoch()
        );
        let wpre = self.weights_pre(owner.as_str(), &lp);
        let pre = Snapshot::take(&self.w);
        let r = self.w.pos(
            &sender,
            fm::PositionAction::Create { identifier: identifier.clone(), unlocking_duration: dur, receiver: receiver.as_ref().map(|r| r.to_string()) },
            &[coin(amount, &lp)],
        );
        let post = Snapshot::take(&self.w);
        let ok = r.is_ok();
        st.bump(if ok { "position open: ok" } else { "position open: rejected" });
        if self.mon.c08 && ok != valid {
            return Err(format!("[C08] {what}: accepted={ok}, the documented rules say {valid} ({:?})", r.err().map(|e| e.chars().take(100).collect::<String>())));
        }
        if ok {
            let p = self.new_position_of(&owner).ok_or_else(|| format!("[C08] {what}: accepted but no new position is reported"))?;
            if let Some(f) = &full {
                if &p.identifier != f && self.mon.c08 {
                    return Err(format!("[C08] {what}: stored as {} instead of {f}", p.identifier));
                }
            }
            self.l.positions.insert(
                p.identifier.clone(),
                MPos { id: p.identifier.clone(), owner: owner.to_string(), lp: lp.clone(), amount, open: true, dur, expiring_at: None },
            );
            let mut expect = BTreeMap::new();
            Self::add_pub(&mut expect, &self.label(sender.as_str()), &lp, -(amount as i128));
            Self::add_pub(&mut expect, "farm_manager", &lp, amount as i128);
            if self.mon.c08 && Self::deltas_pub(&pre, &post) != expect {
                return Err(format!("[C08] {what}: balances changed by {:?}", Self::deltas_pub(&pre, &post)));
            }
            self.check_weight_change(&what, owner.as_str(), &lp, &wpre, amount, 0, dur, st)?;
        }
        self.after_step_pub(&what, ok, &pre, &post, st)
    }

    pub fn op_expand_pos(&mut self, by: u8, user: u8, pos: u16, amount: u128, st: &mut Stats) -> Result<(), String> {
        let owner = self.user(user);
        let mine: Vec<MPos> = self.l.positions_of(owner.as_str()).into_iter().cloned().collect();
        if mine.is_empty() {
            return Ok(());
        }
        let p = mine[pick_idx(pos, mine.len())].clone();
        if by % 3 == 2 {
            // through the pool manager: a locked deposit naming the position
            // (by/3)%4: 0 the owner, two assets; 1 the owner, one asset; 2 somebody else, two assets;
            // 3 somebody else, one asset (the pool manager then calls itself before it locks)
            let k = self.lps.iter().position(|l| *l == p.lp).unwrap_or(0);
            let v = (by / 3) % 4;
            let sender = if v >= 2 { self.w.users.iter().find(|u| **u != owner).cloned().unwrap() } else { owner.clone() };
            // somebody else may also try it "on behalf of" the owner (receiver = the position's owner)
            self.pm_receiver = if v >= 2 && amount % 2 == 1 { Some(owner.to_string()) } else { None };
            let r = self.lock_via_pm(&sender, k, (amount.min(1_000_000_000)).max(1000) as u64, p.dur, Some(p.id.clone()), v % 2 == 1, st);
            self.pm_receiver = None;
            return r;
        }
        let sender = if by % 3 == 0 { owner.clone() } else { self.w.users.iter().find(|u| **u != owner).cloned().unwrap() };
        if self.w.balance(&sender, &p.lp) < amount || amount == 0 {
            return Ok(());
        }
        let valid = p.open && by % 3 == 0;
        let what = format!("step {}: {} adds {amount} LP to position {} of {} ({:?})", self.steps, self.label(sender.as_str()), p.id, self.label(owner.as_str()), p);
        let wpre = self.weights_pre(owner.as_str(), &p.lp);
        let pre = Snapshot::take(&self.w);
        let r = self.w.pos(&sender, fm::PositionAction::Expand { identifier: p.id.clone() }, &[coin(amount, &p.lp)]);
        let post = Snapshot::take(&self.w);
        let ok = r.is_ok();
        st.bump(if ok { "position expand: ok" } else { "position expand: rejected" });
        if self.mon.c08 && ok != valid {
            return Err(format!("[C08] {what}: accepted={ok}, only the owner (or the pool manager) may add to an open position ({:?})", r.err()));
        }
        if ok {
            self.l.positions.get_mut(&p.id).unwrap().amount += amount;
            self.l.pieces.insert(p.lp.clone(), true);
            self.check_weight_change(&what, owner.as_str(), &p.lp, &wpre, amount, 0, p.dur, st)?;
        }
        self.after_step_pub(&what, ok, &pre, &post, st)
    }

    pub fn op_lock_via_pm(&mut self, user: u8, lp: u8, amount: u64, dur: u64, id: Option<u8>, st: &mut Stats) -> Result<(), String> {
        let sender = self.user(user);
        let k = lp as usize % self.lps.len();
        // identifiers 6.. look like the generated ones ("p-<n>" with n just above the highest in use):
        // an explicit identifier lives in its own namespace ("u-…") whatever it looks like
        let next = self.l.positions.keys().filter_map(|k| k.strip_prefix("p-").and_then(|n| n.parse::<u64>().ok())).max().unwrap_or(0) + 1;
        let name = id.map(|i| if i < 6 { format!("x{i}") } else { format!("p-{}", next + (i as u64 - 6)) });
        self.lock_via_pm(&sender, k, amount, dur, name, false, st)
    }

    /// `single`: deposit one asset only (the pool manager swaps half and then calls itself)
    #[allow(clippy::too_many_arguments)]
    fn lock_via_pm(&mut self, sender: &Addr, k: usize, amount: u64, dur: u64, id: Option<String>, single: bool, st: &mut Stats) -> Result<(), String> {
        let lp = self.lps[k].clone();
        let pool = self.pool_ids[k].clone();
        let info = self.w.pool(&pool).unwrap();
        let funds: Vec<Coin> = info.pool_info.assets.iter().take(if single { 1 } else { usize::MAX }).map(|c| coin(amount as u128, &c.denom)).collect();
        let what = format!("step {}: {} deposits {amount}{} into {pool} locked for {dur}s id {:?}", self.steps, self.label(sender.as_str()), if single { " of one asset".to_string() } else { format!("+{amount}") }, id);
        // what the documented rules say: a named position is expanded if it exists (then it must be
        // the sender's own and open), otherwise created as u-<id>
        let existing = id.as_ref().and_then(|i| {
            // the pool manager looks the raw identifier up as given
            self.l.positions.get(i).cloned()
        });
        let valid = match &existing {
            Some(p) => p.owner == sender.as_str() && p.open && p.lp == lp,
            None => {
                (self.min_dur..=self.max_dur).contains(&dur)
                    && id.as_ref().map(|i| !self.l.positions.contains_key(&format!("u-{i}"))).unwrap_or(true)
                    && self.l.open_positions_of(sender.as_str()).len() < 10
            }
        };
        let wpre = self.weights_pre(sender.as_str(), &lp);
        let pre = Snapshot::take(&self.w);
        let recv = self.pm_receiver.clone();
        if recv.is_some() {
            st.bump("locked deposit naming somebody else's position with that owner as receiver");
        }
        let r = self.w.provide(sender, &pool, &funds, None, if single { Some(Decimal::percent(50)) } else { None }, recv, Some(dur), id.clone());
        let post = Snapshot::take(&self.w);
        let ok = r.is_ok();
        st.bump(if ok { "locked deposit: ok" } else { "locked deposit: rejected" });
        if single {
            st.bump(if ok { "locked deposit of one asset: ok" } else { "locked deposit of one asset: rejected" });
        }
        if existing.as_ref().map(|p| p.owner != sender.as_str()).unwrap_or(false) {
            st.bump("locked deposit naming somebody else's position");
        }
        // a one-asset deposit may also be refused by the pool for its own reasons (price impact of
        // the internal swap): only an acceptance the rules forbid is judged there
        if self.mon.c08 && ok != valid && !(single && valid) {
            return Err(format!("[C08] {what}: accepted={ok}, the documented rules say {valid} ({:?})", r.err().map(|e| e.chars().take(120).collect::<String>())));
        }
        if ok {
            let minted = post.bal("farm_manager", &lp) - pre.bal("farm_manager", &lp);
            match existing {
                Some(p) => {
                    self.l.positions.get_mut(&p.id).unwrap().amount += minted;
                    self.l.pieces.insert(lp.clone(), true);
                    self.check_weight_change(&what, sender.as_str(), &lp, &wpre, minted, 0, p.dur, st)?;
                    st.bump("locked deposit: expanded an existing position");
                }
                None => {
                    let p = self.new_position_of(sender).ok_or_else(|| format!("[C08] {what}: accepted but no new position is reported"))?;
                    if let Some(i) = &id {
                        if p.identifier != format!("u-{i}") && self.mon.c08 {
                            return Err(format!("[C08] {what}: stored as {} instead of u-{i} (explicit identifiers have their own namespace)", p.identifier));
                        }
                        if i.starts_with("p-") {
                            st.bump("locked deposit: explicit identifier that looks like a generated one");
                        }
                    }
                    self.l.positions.insert(
                        p.identifier.clone(),
                        MPos { id: p.identifier.clone(), owner: sender.to_string(), lp: lp.clone(), amount: minted, open: true, dur, expiring_at: None },
                    );
                    self.check_weight_change(&what, sender.as_str(), &lp, &wpre, minted, 0, dur, st)?;
                    st.bump("locked deposit: created a position");
                }
            }
        }
        self.after_step_pub(&what, ok, &pre, &post, st)
    }

    pub fn op_close_pos(&mut self, user: u8, pos: u16, part: &Option<Part>, claim_first: bool, by_other: bool, st: &mut Stats) -> Result<(), String> {
        let owner = self.user(user);
        let mine: Vec<MPos> = self.l.open_positions_of(owner.as_str()).into_iter().cloned().collect();
        if mine.is_empty() {
            return Ok(());
        }
        let p = mine[pick_idx(pos, mine.len())].clone();
        let sender = if by_other { self.w.users.iter().find(|u| **u != owner).cloned().unwrap() } else { owner.clone() };
        if claim_first && !by_other {
            self.do_claim(&owner, None, st)?;
        }
        let e = self.epoch();
        let lp_asset: Option<Coin> = part.as_ref().map(|pt| match pt {
            Part::Ppm(ppm) => coin((p.amount * *ppm as u128 / 1_000_000).max(1), &p.lp),
            Part::Units(k) => coin(*k as u128, &p.lp),
            Part::AroundAll(d) => coin((p.amount as i128 + *d as i128).max(0) as u128, &p.lp),
            Part::WrongDenom => coin(1, "uusd"),
        });
        // "no pending rewards" is what the Rewards query reports right now (whether that figure is
        // right is C06/C07's business, not this check's)
        let _ = e;
        let pending = match self.w.rewards(&sender, None) {
            Ok(c) => c.iter().any(|x| !x.amount.is_zero()),
            Err(_) => true,
        };
        let part_ok = match &lp_asset {
            None => true,
            Some(c) => c.denom == p.lp && c.amount.u128() <= p.amount,
        };
        let closed_count = self.l.positions_of(owner.as_str()).iter().filter(|x| !x.open).count();
        let valid = !by_other && !pending && part_ok && closed_count < 10;
        let what = format!("step {}: {} closes {:?} of position {:?} at {}", self.steps, self.label(sender.as_str()), lp_asset.as_ref().map(|c| c.amount.u128()), p, self.w.now());
        let wpre = self.weights_pre(owner.as_str(), &p.lp);
        let pre = Snapshot::take(&self.w);
        // an explicit identifier is stored as "u-<identifier>": the bare identifier names nothing
        let bare = p.id.strip_prefix("u-").filter(|b| pos % 7 == 3 && !self.l.positions.contains_key(*b)).map(|x| x.to_string());
        let valid = valid && bare.is_none();
        if bare.is_some() {
            st.bump("position close: by the identifier without its prefix");
        }
        let r = self.w.pos(&sender, fm::PositionAction::Close { identifier: bare.clone().unwrap_or(p.id.clone()), lp_asset: lp_asset.clone() }, &[]);
        let post = Snapshot::take(&self.w);
        let ok = r.is_ok();
        st.bump(if ok { "position close: ok" } else { "position close: rejected" });
        if self.mon.c08 && ok != valid {
            return Err(format!(
                "[C08] {what}: accepted={ok}, the documented rules say {valid} (owner {} pending rewards {pending} part ok {part_ok} closed positions {closed_count}) ({:?})",
                !by_other,
                r.err().map(|e| e.chars().take(120).collect::<String>())
            ));
        }
        if ok {
            if self.mon.c08 && !Self::deltas_pub(&pre, &post).is_empty() {
                return Err(format!("[C08] {what}: closing moved funds: {:?}", Self::deltas_pub(&pre, &post)));
            }
            let now = self.w.now();
            let closed_amount = match &lp_asset {
                Some(c) if c.amount.u128() < p.amount => {
                    let part_amt = c.amount.u128();
                    let np = self.new_position_of(&owner).ok_or_else(|| format!("[C08] {what}: partial close reported no new position"))?;
                    self.l.positions.get_mut(&p.id).unwrap().amount -= part_amt;
                    self.l.positions.insert(
                        np.identifier.clone(),
                        MPos { id: np.identifier.clone(), owner: owner.to_string(), lp: p.lp.clone(), amount: part_amt, open: false, dur: p.dur, expiring_at: Some(now + p.dur) },
                    );
                    self.l.pieces.insert(p.lp.clone(), true);
                    st.bump("position close: partial");
                    if self.mon.c05 || self.mon.c08 {
                        st.mark();
                    }
                    part_amt
                }
                _ => {
                    let m = self.l.positions.get_mut(&p.id).unwrap();
                    m.open = false;
                    m.expiring_at = Some(now + p.dur);
                    st.bump("position close: full");
                    p.amount
                }
            };
            self.l.reconcile(owner.as_str(), &p.lp, self.epoch() + 1);
            let others_hold = self.l.total_eff(&p.lp, e + 1) > wpre.next_eff;
            self.check_weight_change(&what, owner.as_str(), &p.lp, &wpre, 0, closed_amount, p.dur, st)?;
            if self.mon.c10 && self.l.pieces.get(&p.lp).copied().unwrap_or(false) && others_hold && !self.l.has_open_in(owner.as_str(), &p.lp) {
                st.bump("c10: full exit after split positions while others hold weight");
                st.mark();
            }
        }
        self.after_step_pub(&what, ok, &pre, &post, st)
    }

    pub fn op_withdraw_pos(&mut self, user: u8, pos: u16, emergency: Option<bool>, by_other: bool, at_unlock: Option<i8>, st: &mut Stats) -> Result<(), String> {
        let owner = self.user(user);
        let mine: Vec<MPos> = self.l.positions_of(owner.as_str()).into_iter().cloned().collect();
        if mine.is_empty() {
            return Ok(());
        }
        // prefer closed positions for plain withdrawals
        let now0 = self.w.now();
        let unlocked: Vec<MPos> = mine.iter().filter(|p| p.expiring_at.map(|t| t <= now0 + 1).unwrap_or(false)).cloned().collect();
        let cands: Vec<MPos> = if emergency != Some(true) && !unlocked.is_empty() && pos % 5 != 3 {
            unlocked
        } else if emergency != Some(true) && mine.iter().any(|p| !p.open) && pos % 5 != 4 {
            mine.iter().filter(|p| !p.open).cloned().collect()
        } else {
            mine.clone()
        };
        let mut p = cands[pick_idx(pos, cands.len())].clone();
        if let Some(delta) = at_unlock {
            // aim at the boundary second of a closed position
            let closed: Vec<MPos> = mine.iter().filter(|x| x.expiring_at.map(|t| t + 1 > now0).unwrap_or(false)).cloned().collect();
            if !closed.is_empty() {
                p = closed[pick_idx(pos, closed.len())].clone();
                let t = (p.expiring_at.unwrap() as i128 + delta as i128) as u64;
                if t > now0 {
                    self.w.set_time(t);
                }
            }
        }
        let sender = if by_other { self.w.users.iter().find(|u| **u != owner).cloned().unwrap() } else { owner.clone() };
        let now = self.w.now();
        let e = self.epoch();
        let expired = p.expiring_at.map(|t| t <= now).unwrap_or(false);
        let emergency_path = emergency == Some(true) && !expired;
        let valid = !by_other && (emergency_path || expired);
        let what = format!(
            "step {}: {} withdraws position {:?} (emergency {:?}) at time {now} (epoch {e}, penalty {} bp)",
            self.steps,
            self.label(sender.as_str()),
            p,
            emergency,
            self.penalty_bp
        );
        // farm owners entitled to a share of an emergency penalty: unique owners of active farms
        let active_owners: Vec<String> = {
            let mut v: Vec<String> = self.l.farms.values().filter(|f| f.lp == p.lp && f.start <= e && !self.farm_expired(f, now)).map(|f| f.owner.clone()).collect();
            v.sort();
            v.dedup();
            v
        };
        let wpre = self.weights_pre(owner.as_str(), &p.lp);
        let pre = Snapshot::take(&self.w);
        // an explicit identifier is stored as "u-<identifier>": the bare identifier names nothing
        let bare = p.id.strip_prefix("u-").filter(|b| pos % 7 == 3 && !self.l.positions.contains_key(*b)).map(|x| x.to_string());
        let valid = valid && bare.is_none();
        if bare.is_some() {
            st.bump("position withdraw: by the identifier without its prefix");
        }
        let r = self.w.pos(&sender, fm::PositionAction::Withdraw { identifier: bare.clone().unwrap_or(p.id.clone()), emergency_unlock: emergency }, &[]);
        let post = Snapshot::take(&self.w);
        let ok = r.is_ok();
        st.bump(if ok { "position withdraw: ok" } else { "position withdraw: rejected" });
        if let Some(t) = p.expiring_at {
            if now.abs_diff(t) <= 1 && (self.mon.c08 || self.mon.c09) {
                st.bump("withdraw attempt within 1s of the unlock instant");
                st.mark();
            }
        }
        // (an emergency exit of an empty position — the residue of a zero-amount partial close — has no
        // defined penalty; either outcome is accepted)
        // amounts above ~3.4e20 overflow the contract's 18-digit Decimal in the penalty computation:
        // the emergency exit is then refused cleanly (the position can still be closed and withdrawn)
        let dont_care = emergency_path && (p.amount == 0 || p.amount >= 340_000_000_000_000_000_000);
        if (self.mon.c08 || self.mon.c09) && ok != valid && !dont_care {
            return Err(format!(
                "[{}] {what}: accepted={ok}, the documented rules say {valid} (owner {}, closed {}, unlocked {expired}) ({:?})",
                if self.mon.c09 { "C09" } else { "C08" },
                !by_other,
                !p.open,
                r.err().map(|e| e.chars().take(120).collect::<String>())
            ));
        }
        if ok {
            let actual = Self::deltas_pub(&pre, &post);
            let ol = self.label(owner.as_str());
            if !emergency_path {
                let mut expect = BTreeMap::new();
                Self::add_pub(&mut expect, &ol, &p.lp, p.amount as i128);
                Self::add_pub(&mut expect, "farm_manager", &p.lp, -(p.amount as i128));
                if (self.mon.c08 || self.mon.c09 || self.mon.c05) && actual != expect {
                    return Err(format!("[C08] {what}: balances changed by {:?}; a withdrawal pays the owner exactly the recorded amount {:?}", actual, expect));
                }
                st.bump("position withdraw: after unlock");
            } else {
                self.check_emergency(&what, &p, &ol, &active_owners, now, &actual, st)?;
            }
            self.l.positions.remove(&p.id);
            if p.open {
                self.l.reconcile(owner.as_str(), &p.lp, self.epoch() + 1);
                self.check_weight_change(&what, owner.as_str(), &p.lp, &wpre, 0, p.amount, p.dur, st)?;
            }
        }
        self.after_step_pub(&what, ok, &pre, &post, st)
    }

    /// C09: the penalty and its distribution
    #[allow(clippy::too_many_arguments)]
    fn check_emergency(&mut self, what: &str, p: &MPos, owner_label: &str, active_owners: &[String], now: u64, actual: &BTreeMap<(String, String), i128>, st: &mut Stats) -> Result<(), String> {
        st.bump("emergency withdrawal");
        if self.mon.c05 && !active_owners.is_empty() {
            st.bump("emergency exit with an active farm");
            st.mark();
        }
        if !self.mon.c09 {
            return Ok(());
        }
        let remaining = match p.expiring_at {
            Some(t) => t.saturating_sub(now),
            None => p.dur,
        };
        // exact rational upper value: amount * min(0.9, base * remaining/dur * m(dur))
        let (mn, md) = multiplier(p.dur);
        let base_n = big(self.penalty_bp as u128);
        let rate_n = &base_n * big(remaining as u128) * &mn; // over 10000 * dur * md
        let rate_d = big(10_000) * big(p.dur as u128) * &md;
        let capped = |n: &BigUint, d: &BigUint| -> (BigUint, BigUint) {
            // min(n/d, 9/10)
            if n * big(10) > d * big(9) {
                (big(9), big(10))
            } else {
                (n.clone(), d.clone())
            }
        };
        let (un, ud) = capped(&rate_n, &rate_d);
        let upper = big(p.amount) * &un / &ud;
        // lower value: the multiplier as weight/amount with the weight at its lower bound, minus the
        // slack of the contract's 18-digit floors
        let (w_lo, _) = weight_bounds(p.amount, p.dur);
        let lrate_n = &base_n * big(remaining as u128) * &w_lo;
        let lrate_d = big(10_000) * big(p.dur as u128) * big(p.amount);
        let (ln, ld) = capped(&lrate_n, &lrate_d);
        let lower_raw = big(p.amount) * &ln / &ld;
        // 18-digit floors of remaining/duration, of weight/amount and of the two products, the first
        // two amplified by the other factors (<= 1 x 16): less than 34e-18 on the rate
        let slack = big(1) + big(p.amount) * big(40) / big(1_000_000_000_000_000_000);
        let lower = if lower_raw > slack { &lower_raw - &slack } else { BigUint::zero() };
        let cap90 = big(p.amount) * big(9) / big(10);
        // try every admissible penalty and find the one that explains the observed balance changes
        let explains = |tt: u128| -> bool {
            let comm = tt / 2;
            let mut expect: BTreeMap<(String, String), i128> = BTreeMap::new();
            Self::add_pub(&mut expect, owner_label, &p.lp, (p.amount - tt) as i128);
            let mut out = p.amount - tt;
            if active_owners.is_empty() {
                Self::add_pub(&mut expect, "fee_collector", &p.lp, tt as i128);
                out += tt;
            } else {
                let share = comm / active_owners.len() as u128;
                if share > 0 {
                    for o in active_owners {
                        Self::add_pub(&mut expect, &self.label(o), &p.lp, share as i128);
                        out += share;
                    }
                    Self::add_pub(&mut expect, "fee_collector", &p.lp, (tt - comm) as i128);
                    out += tt - comm;
                } else {
                    Self::add_pub(&mut expect, "fee_collector", &p.lp, tt as i128);
                    out += tt;
                }
            }
            Self::add_pub(&mut expect, "farm_manager", &p.lp, -(out as i128));
            &expect == actual
        };
        // candidates: what the owner's own balance change suggests, then the admissible interval
        // scanned from both ends
        let mut cands: Vec<u128> = vec![];
        let owner_delta = actual.get(&(owner_label.to_string(), p.lp.clone())).copied().unwrap_or(0);
        if owner_delta >= 0 && (owner_delta as u128) <= p.amount {
            cands.push(p.amount - owner_delta as u128);
        }
        // the fee collector receives either the whole penalty or its upper half
        let coll = actual.get(&("fee_collector".to_string(), p.lp.clone())).copied().unwrap_or(0).max(0) as u128;
        cands.push(coll);
        cands.push(coll.saturating_mul(2));
        cands.push(coll.saturating_mul(2).saturating_sub(1));
        let lo_u = u128::try_from(lower.clone()).unwrap_or(0);
        let hi_u = u128::try_from(upper.clone()).unwrap_or(u128::MAX).min(p.amount);
        for k in 0..200u128 {
            if lo_u + k <= hi_u {
                cands.push(lo_u + k);
            }
            if hi_u >= k && hi_u - k >= lo_u {
                cands.push(hi_u - k);
            }
        }
        let mut found: Option<BigUint> = None;
        for tt in cands {
            if tt >= lo_u && tt <= hi_u && explains(tt) {
                found = Some(big(tt));
                break;
            }
        }
        let penalty = match found {
            Some(t) => t,
            None => {
                return Err(format!(
                    "[C09] {what}: balance changes {:?} are not explained by any penalty in [{lower}, {upper}] = amount x min(90%, base x remaining {remaining}/{} x weight multiplier) split between the fee collector and the active farm owners {:?}",
                    actual,
                    p.dur,
                    active_owners.iter().map(|o| self.label(o)).collect::<Vec<_>>()
                ))
            }
        };
        if penalty > cap90 {
            return Err(format!("[C09] {what}: penalty {penalty} exceeds 90% of the position"));
        }
        if remaining == 0 && !penalty.is_zero() {
            return Err(format!("[C09] {what}: penalty {penalty} although the position has unlocked"));
        }
        st.bump(if penalty.is_zero() { "emergency: zero penalty" } else { "emergency: non-zero penalty" });
        if !penalty.is_zero() && active_owners.len() >= 2 {
            st.bump("emergency: penalty shared by >= 2 farm owners");
            if self.mon.c09 {
                st.mark();
            }
        }
        if self.mon.c09 && !penalty.is_zero() {
            st.mark();
        }
        Ok(())
    }
}
