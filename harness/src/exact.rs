//! Exact big-integer reference for the Curve invariant as parameterised in this code base:
//!   Ann*S + D = Ann*D + D^(n+1) / (n^n * prod(x)),   Ann = amp * n
//! All x are amounts normalised to a common precision.
use num_bigint::BigUint;
use num_traits::{One, Zero};

pub fn big(x: u128) -> BigUint {
    BigUint::from(x)
}

/// f(D) <= 0  <=>  D^(n+1) + (Ann-1)*D*n^n*P <= Ann*S*n^n*P
fn f_le_zero(d: &BigUint, xs: &[BigUint], amp: u64) -> bool {
    let n = xs.len() as u32;
    let ann = BigUint::from(amp) * BigUint::from(n);
    let s: BigUint = xs.iter().sum();
    let p: BigUint = xs.iter().product();
    let nn = BigUint::from(n).pow(n);
    let lhs = d.pow(n + 1) + (&ann - BigUint::one()) * d * &nn * &p;
    let rhs = ann * s * nn * p;
    lhs <= rhs
}

/// floor of the real root D* of the invariant (all xs must be > 0)
pub fn d_floor(xs: &[BigUint], amp: u64) -> BigUint {
    let s: BigUint = xs.iter().sum();
    if xs.iter().any(|x| x.is_zero()) {
        return BigUint::zero();
    }
    // root is in [0, S]
    let (mut lo, mut hi) = (BigUint::zero(), s.clone());
    // invariant: f(lo) <= 0; answer = max d with f(d) <= 0
    if f_le_zero(&hi, xs, amp) {
        return hi;
    }
    while &hi - &lo > BigUint::one() {
        let mid = (&lo + &hi) >> 1;
        if f_le_zero(&mid, xs, amp) {
            lo = mid;
        } else {
            hi = mid;
        }
    }
    lo
}

/// D at `extra` additional decimal digits of resolution: floor(D* * 10^extra)
pub fn d_floor_scaled(xs: &[BigUint], amp: u64, extra: u32) -> BigUint {
    let k = BigUint::from(10u32).pow(extra);
    let scaled: Vec<BigUint> = xs.iter().map(|x| x * &k).collect();
    d_floor(&scaled, amp)
}

/// Smallest integer y >= 0 such that the invariant value of (others + [y]) is >= D, for a real
/// number D given as the rational d_num/d_den: i.e. g(y) >= 0 where
///   g(y) = Ann*(S'+y) + D - Ann*D - D^(n+1)/(n^n * P' * y)   (increasing in y)
/// multiplied out with denominators cleared.
pub fn y_ceil(others: &[BigUint], amp: u64, d_num: &BigUint, d_den: &BigUint) -> BigUint {
    let n = (others.len() + 1) as u32;
    let ann = BigUint::from(amp) * BigUint::from(n);
    let s1: BigUint = others.iter().sum();
    let p1: BigUint = others.iter().product();
    let nn = BigUint::from(n).pow(n);
    // g(y) >= 0  <=>  [Ann*(S'+y)*den + num] * den^n * nn*P'*y  >=  [Ann*num*den^n + ... ]
    // write with D = num/den:
    //   Ann*(S'+y) + D - Ann*D >= D^(n+1)/(nn P' y)
    //   (Ann*(S'+y)*den + num - Ann*num) * nn*P'*y * den^n >= num^(n+1)       (when lhs bracket >= 0)
    let ok = |y: &BigUint| -> bool {
        if y.is_zero() {
            return false;
        }
        let a = &ann * (&s1 + y) * d_den + d_num;
        let b = &ann * d_num;
        if a < b {
            return false;
        }
        let lhs = (a - b) * &nn * &p1 * y * d_den.pow(n);
        let rhs = d_num.pow(n + 1);
        lhs >= rhs
    };
    // exponential search for an upper bound
    let mut hi = BigUint::one();
    while !ok(&hi) {
        hi <<= 1;
    }
    let mut lo = &hi >> 1; // !ok(lo) or lo==0
    if hi == BigUint::one() {
        return hi;
    }
    while &hi - &lo > BigUint::one() {
        let mid = (&lo + &hi) >> 1;
        if ok(&mid) {
            hi = mid;
        } else {
            lo = mid;
        }
    }
    hi
}

pub fn to_u128(x: &BigUint) -> u128 {
    u128::try_from(x.clone()).expect("fits u128")
}

/// saturating conversion (for generated amounts at the edge of the 128-bit range)
pub fn to_u128_sat(x: &BigUint) -> u128 {
    u128::try_from(x.clone()).unwrap_or(u128::MAX)
}

pub fn pow10(e: u32) -> BigUint {
    BigUint::from(10u32).pow(e)
}

/// Normalise raw amounts to the max precision among `decs`.
pub fn normalise(amounts: &[u128], decs: &[u8]) -> Vec<BigUint> {
    let m = *decs.iter().max().unwrap() as u32;
    amounts
        .iter()
        .zip(decs)
        .map(|(a, d)| big(*a) * pow10(m - *d as u32))
        .collect()
}

/// Exact maximal output (in ask units, floor) of swapping `offer` units of asset i for asset j
/// that does not decrease the real invariant D (evaluated with `extra` additional digits).
/// Returns None when even 0 output is not enough (cannot happen for offer >= 0).
pub fn exact_swap_out(
    amounts: &[u128],
    decs: &[u8],
    amp: u64,
    i: usize,
    j: usize,
    offer: u128,
    extra: u32,
) -> BigUint {
    let m = *decs.iter().max().unwrap() as u32;
    let xs = normalise(amounts, decs);
    let d = d_floor_scaled(&xs, amp, extra);
    let den = pow10(extra);
    let mut others = vec![];
    for k in 0..xs.len() {
        if k == j {
            continue;
        }
        if k == i {
            others.push(&xs[k] + big(offer) * pow10(m - decs[k] as u32));
        } else {
            others.push(xs[k].clone());
        }
    }
    let y = y_ceil(&others, amp, &d, &den);
    let scale_j = pow10(m - decs[j] as u32);
    if xs[j] >= y {
        (&xs[j] - &y) / &scale_j
    } else {
        BigUint::zero()
    }
}

/// Bracket of the exact maximal output: (lo, hi) with lo <= E_true <= hi, lo computed with the
/// invariant rounded up by one 10^-extra unit and hi with it rounded down, so neither bound can
/// be wrong because of the finite resolution of D.
pub fn exact_swap_bracket(
    amounts: &[u128],
    decs: &[u8],
    amp: u64,
    i: usize,
    j: usize,
    offer: u128,
    extra: u32,
) -> (BigUint, BigUint) {
    let m = *decs.iter().max().unwrap() as u32;
    let xs = normalise(amounts, decs);
    let d_lo = d_floor_scaled(&xs, amp, extra);
    let d_hi = &d_lo + BigUint::one();
    let den = pow10(extra);
    let mut others = vec![];
    for k in 0..xs.len() {
        if k == j {
            continue;
        }
        if k == i {
            others.push(&xs[k] + big(offer) * pow10(m - decs[k] as u32));
        } else {
            others.push(xs[k].clone());
        }
    }
    let scale_j = pow10(m - decs[j] as u32);
    let out = |d: &BigUint| {
        let y = y_ceil(&others, amp, d, &den);
        if xs[j] >= y {
            (&xs[j] - &y) / &scale_j
        } else {
            BigUint::zero()
        }
    };
    (out(&d_hi), out(&d_lo))
}
