//! Monitors: the oracles evaluated after every step of a pool history.
use std::collections::{BTreeMap, BTreeSet};

use cosmwasm_std::{coin, Decimal};
use mantra_dex_std::pool_manager as pm;
use num_bigint::BigUint;
use num_traits::Zero;

use super::interp::*;
use crate::exact::{self, big, pow10};
use crate::framework::{kf_open, Stats};
use crate::poolview::{fee_floor, Kind, PoolView};

#[derive(Debug, Clone, Copy, Default)]
pub struct Mon {
    pub c01: bool,
    pub c02: bool,
    pub c03: bool,
    pub c04: bool,
    pub c12: bool,
    pub c16: bool,
    pub c20: bool,
    /// every executed stableswap hop is priced from the reserves it actually met
    pub c19: bool,
}

/// One executed swap: a direct swap, one hop of a route, or the internal swap of a single-asset deposit
#[derive(Debug, Clone)]
pub struct SwapExec {
    pub path: &'static str,
    pub before: PoolView,
    pub after: PoolView,
    pub info_before: mantra_dex_std::pool_manager::PoolInfo,
    pub oi: usize,
    pub ai: usize,
    pub offer: u128,
    /// net amount forwarded / delivered
    pub ret: u128,
}

/// Extract the executed swaps of a successful step from the response events, tracking each pool's
/// reserves hop by hop; the end state is cross-checked against the `Pools{}` query by the caller.
pub fn swap_execs(step: &Step) -> Result<(Vec<SwapExec>, BTreeMap<String, PoolView>), String> {
    let mut tracked = step.pre.pools.clone();
    let mut infos = step.pre.infos.clone();
    let mut out = vec![];
    if !step.ok() {
        return Ok((out, tracked));
    }
    let evs = step.wasm_events();
    let mut apply = |path: &'static str,
                     pool: &str,
                     din: &str,
                     dout: &str,
                     offer: u128,
                     ret: u128,
                     reserves: &[(String, u128)],
                     tracked: &mut BTreeMap<String, PoolView>,
                     infos: &mut BTreeMap<String, mantra_dex_std::pool_manager::PoolInfo>|
     -> Result<(), String> {
        let before = tracked.get(pool).cloned().ok_or_else(|| format!("event names unknown pool {pool}"))?;
        let mut after = before.clone();
        for (d, a) in reserves {
            let i = after.idx(d).ok_or_else(|| format!("event reserves name a denom {d} that is not in pool {pool}"))?;
            after.reserves[i] = *a;
        }
        let oi = before.idx(din).ok_or("offer denom not in pool")?;
        let ai = before.idx(dout).ok_or("ask denom not in pool")?;
        let info_before = infos.get(pool).cloned().ok_or("no pool info")?;
        let mut info_after = info_before.clone();
        for c in info_after.assets.iter_mut() {
            if let Some(i) = after.idx(&c.denom) {
                c.amount = after.reserves[i].into();
            }
        }
        infos.insert(pool.to_string(), info_after);
        tracked.insert(pool.to_string(), after.clone());
        out.push(SwapExec { path, before, after, info_before, oi, ai, offer, ret });
        Ok(())
    };
    match &step.kind {
        Kinded::Swap { pool, offer, ask, .. } => {
            let ev = evs
                .iter()
                .find(|a| attr(a, "action") == Some("swap"))
                .ok_or("no swap event in the response")?;
            let ret = attr_u128(ev, "return_amount").ok_or("no return_amount attribute")?;
            let reserves = parse_reserves(attr(ev, "pool_reserves").ok_or("no pool_reserves attribute")?);
            apply("direct", pool, &offer.denom, ask, offer.amount.u128(), ret, &reserves, &mut tracked, &mut infos)?;
        }
        Kinded::Route { hops, .. } => {
            let ev = evs
                .iter()
                .find(|a| attr(a, "action") == Some("execute_swap_operations"))
                .ok_or("no execute_swap_operations event")?;
            // one group of attributes per hop: a "swap" attribute ("in=…, out=…, <fees in any
            // order>") followed, in any order and up to the next "swap", by the hop's pool_identifier
            // and pool_reserves; attributes this harness does not know are skipped
            let mut k = 0usize;
            let mut i = 0usize;
            while i < ev.len() {
                if ev[i].0 == "swap" {
                    let mut cin = None;
                    let mut cout = None;
                    for part in ev[i].1.split(',') {
                        let part = part.trim();
                        if let Some(v) = part.strip_prefix("in=") {
                            cin = parse_coin(v);
                        } else if let Some(v) = part.strip_prefix("out=") {
                            cout = parse_coin(v);
                        }
                    }
                    let (din, offer) = cin.ok_or("unparsable hop input")?;
                    let (dout, ret) = cout.ok_or("unparsable hop output")?;
                    let mut pid: Option<String> = None;
                    let mut res: Option<Vec<(String, u128)>> = None;
                    let mut j = i + 1;
                    while j < ev.len() && ev[j].0 != "swap" {
                        if ev[j].0 == "pool_identifier" && pid.is_none() {
                            pid = Some(ev[j].1.clone());
                        } else if ev[j].0 == "pool_reserves" && res.is_none() {
                            res = Some(parse_reserves(&ev[j].1));
                        }
                        j += 1;
                    }
                    let pid = pid.ok_or("hop without pool_identifier")?;
                    let res = res.ok_or("hop without pool_reserves")?;
                    let h = hops.get(k).ok_or("more hops in the events than in the message")?;
                    if h.pool != pid || h.denom_in != din || h.denom_out != dout {
                        return Err(format!("hop {k} of the events ({pid} {din}->{dout}) is not hop {k} of the message ({} {}->{})", h.pool, h.denom_in, h.denom_out));
                    }
                    apply("hop", &pid, &din, &dout, offer, ret, &res, &mut tracked, &mut infos)?;
                    k += 1;
                    i = j;
                } else {
                    i += 1;
                }
            }
            if k != hops.len() {
                return Err(format!("{} hops in the message but {k} in the events", hops.len()));
            }
        }
        Kinded::Provide { pool, deposits, single: true, .. } if deposits.len() == 1 => {
            if let Some(ev) = evs.iter().find(|a| attr(a, "action") == Some("swap")) {
                let ret = attr_u128(ev, "return_amount").ok_or("no return_amount attribute")?;
                let offer = attr_u128(ev, "offer_amount").ok_or("no offer_amount attribute")?;
                let dout = attr(ev, "ask_denom").ok_or("no ask_denom")?.to_string();
                let reserves = parse_reserves(attr(ev, "pool_reserves").ok_or("no pool_reserves attribute")?);
                apply("single-internal", pool, &deposits[0].denom, &dout, offer, ret, &reserves, &mut tracked, &mut infos)?;
                // the deposit that follows adds both halves
                let p = tracked.get_mut(pool).unwrap();
                let oi = p.idx(&deposits[0].denom).unwrap();
                let ai = p.idx(&dout).unwrap();
                p.reserves[oi] += offer;
                p.reserves[ai] += ret;
            }
        }
        _ => {}
    }
    Ok((out, tracked))
}

/// the tracked end state must be what `Pools{}` reports afterwards
pub fn crosscheck_tracked(step: &Step, tracked: &BTreeMap<String, PoolView>) -> Result<(), String> {
    for (id, t) in tracked {
        if let Some(p) = step.post.pools.get(id) {
            if p.reserves != t.reserves {
                return Err(format!(
                    "pool {id}: reserves reported by the response events {:?} differ from the Pools query {:?}",
                    t.reserves, p.reserves
                ));
            }
        }
    }
    Ok(())
}

// ------------------------------------------------------------------------------------------------
// C01

pub fn mon_c01(sim: &Sim, step: &Step, st: &mut Stats) -> Result<(), String> {
    let post = &step.post;
    let mut denoms: BTreeSet<String> = BTreeSet::new();
    for ((who, d), _) in post.snap.balances.iter() {
        if who == "pool_manager" {
            denoms.insert(d.clone());
        }
    }
    for p in post.pools.values() {
        for d in &p.denoms {
            denoms.insert(d.clone());
        }
        denoms.insert(p.lp_denom.clone());
    }
    for d in sim.donated.keys().chain(sim.odd_units.keys()) {
        denoms.insert(d.clone());
    }
    for d in denoms {
        let bank = post.snap.bal("pool_manager", &d);
        let reserves: u128 = post.pools.values().map(|p| p.idx(&d).map(|i| p.reserves[i]).unwrap_or(0)).sum();
        let locked: u128 = post.pools.values().filter(|p| p.lp_denom == d && p.funded()).map(|p| p.min_liquidity()).sum();
        let donated = sim.donated.get(&d).copied().unwrap_or(0);
        let odd = sim.odd_units.get(&d).copied().unwrap_or(0);
        let expected = reserves + locked + donated + odd;
        if bank != expected {
            return Err(format!(
                "[C01] after {}: pool manager holds {bank} {d} but reports reserves {reserves} (+ locked minimum liquidity {locked} + donated {donated} + odd single-asset units {odd} = {expected}); {}",
                step.describe(),
                if bank < reserves { "reserves are NOT backed" } else { "unexplained difference" }
            ));
        }
    }
    if step.ok() {
        st.bump("c01: steps ok");
    } else {
        st.bump("c01: steps rejected");
    }
    Ok(())
}

// ------------------------------------------------------------------------------------------------
// C02

fn lp_holder_delta(step: &Step, lp: &str) -> BTreeMap<String, i128> {
    let mut m = BTreeMap::new();
    let keys: BTreeSet<_> = step
        .pre
        .snap
        .balances
        .keys()
        .chain(step.post.snap.balances.keys())
        .filter(|k| k.1 == lp)
        .cloned()
        .collect();
    for k in keys {
        let a = step.pre.snap.bal(&k.0, lp) as i128;
        let b = step.post.snap.bal(&k.0, lp) as i128;
        if a != b {
            m.insert(k.0.clone(), b - a);
        }
    }
    m
}

pub fn mon_c02(_sim: &Sim, step: &Step, st: &mut Stats) -> Result<(), String> {
    let empty = PoolView {
        id: String::new(), denoms: vec![], decimals: vec![], reserves: vec![], kind: Kind::Cp, lp_denom: String::new(), supply: 0,
        swaps_enabled: true, deposits_enabled: true, withdrawals_enabled: true, protocol_fee: 0, swap_fee: 0, burn_fee: 0, extra_fees: vec![],
    };
    for (id, p1) in step.post.pools.iter() {
        let p0 = step.pre.pools.get(id).unwrap_or(&empty);
        let (s0, s1) = (p0.supply, p1.supply);
        // (f) the locked minimum
        if p1.funded() && s1 < p1.min_liquidity() {
            return Err(format!("[C02] after {}: LP supply of {id} is {s1}, below the locked minimum {}", step.describe(), p1.min_liquidity()));
        }
        if s0 == s1 {
            continue;
        }
        // (a) supply changes only by deposits and withdrawals of that pool
        let on_this_pool_provide = matches!(&step.kind, Kinded::Provide { pool, .. } if pool == id) && step.ok();
        let on_this_pool_withdraw = matches!(&step.kind, Kinded::Withdraw { pool, .. } if pool == id) && step.ok();
        if s1 > s0 && !on_this_pool_provide {
            return Err(format!("[C02] {}: LP supply of {id} grew {s0} -> {s1} without a deposit into it", step.describe()));
        }
        if s1 < s0 && !on_this_pool_withdraw {
            // LP tokens traded as a pool asset can be destroyed by that pool's burn fee
            let burnt_as_fee = step.ok()
                && step.post.pools.values().any(|q| q.idx(&p1.lp_denom).is_some() && q.burn_fee > 0)
                && matches!(&step.kind, Kinded::Swap { .. } | Kinded::Route { .. } | Kinded::Provide { single: true, .. });
            if burnt_as_fee {
                st.bump("c02: LP burnt as another pool's burn fee");
                continue;
            }
            return Err(format!("[C02] {}: LP supply of {id} shrank {s0} -> {s1} without a withdrawal from it", step.describe()));
        }
    }
    if !step.ok() {
        // (e) redeemability of a refused withdrawal
        if let Kinded::Withdraw { pool, lp } = &step.kind {
            if let Some(p) = step.pre.pools.get(pool) {
                let bal = step.pre.snap.bal(&step.sender_label, &p.lp_denom);
                let worth_a_unit = p.supply > 0 && p.reserves.iter().any(|r| big(*r) * big(*lp) / big(p.supply) >= big(1));
                if p.withdrawals_enabled && *lp > 0 && *lp <= bal && worth_a_unit {
                    return Err(format!(
                        "[C02] {}: a holder of {bal} LP could not redeem {lp} LP (supply {}, reserves {:?}) although it is worth at least one unit of an asset",
                        step.describe(), p.supply, p.reserves
                    ));
                }
            }
        }
        return Ok(());
    }
    match &step.kind {
        Kinded::Provide { pool, deposits, single, receiver, lock, .. } => {
            let p0 = step.pre.pools.get(pool).ok_or("[harness] provide on unknown pool")?;
            let p1 = step.post.pools.get(pool).ok_or("[harness] pool vanished")?;
            let (s0, s1) = (p0.supply, p1.supply);
            let minted_total = s1 - s0;
            // who got LP: receiver (or farm manager when locked) and, on the first deposit, the contract
            let deltas = lp_holder_delta(step, &p0.lp_denom);
            let pm_delta = deltas.get("pool_manager").copied().unwrap_or(0);
            let expect_pm = if s0 == 0 { p1.min_liquidity() as i128 } else { 0 };
            if pm_delta != expect_pm {
                return Err(format!("[C02] {}: pool manager's own LP balance changed by {pm_delta}, expected {expect_pm}", step.describe()));
            }
            let minted_user = minted_total as i128 - pm_delta;
            let target = if lock.is_some() {
                "farm_manager".to_string()
            } else {
                match receiver {
                    Some(r) => step.post_label(r),
                    None => step.sender_label.clone(),
                }
            };
            let got = deltas.get(&target).copied().unwrap_or(0);
            if got != minted_user || deltas.iter().any(|(k, _)| k != "pool_manager" && *k != target) {
                return Err(format!("[C02] {}: minted {minted_user} LP but holders changed by {:?} (expected all of it at {target})", step.describe(), deltas));
            }
            match p0.kind {
                Kind::Cp => {
                    let (x0, y0, x1, y1) = (big(p0.reserves[0]), big(p0.reserves[1]), big(p1.reserves[0]), big(p1.reserves[1]));
                    if s0 == 0 {
                        let cap = (&x1 * &y1).sqrt();
                        if big(s1) > cap {
                            return Err(format!("[C02] {}: first deposit minted supply {s1} > sqrt(x*y) = {cap}", step.describe()));
                        }
                        st.bump("c02: cp first deposit");
                    } else {
                        if !*single {
                            // minted <= min_i floor(dep_i * S / R_i)
                            let mut cap: Option<BigUint> = None;
                            for d in deposits {
                                let i = p0.idx(&d.denom).unwrap();
                                if p0.reserves[i] == 0 {
                                    continue;
                                }
                                let c = big(d.amount.u128()) * big(s0) / big(p0.reserves[i]);
                                cap = Some(match cap {
                                    None => c,
                                    Some(o) => o.min(c),
                                });
                            }
                            if let Some(cap) = cap {
                                if big(minted_total) > cap {
                                    return Err(format!("[C02] {}: minted {minted_total} LP > proportional contribution {cap} (supply {s0}, reserves {:?})", step.describe(), p0.reserves));
                                }
                            }
                        }
                        // value per LP never decreases: x1*y1*S0^2 >= x0*y0*S1^2
                        if &x1 * &y1 * big(s0) * big(s0) < &x0 * &y0 * big(s1) * big(s1) {
                            return Err(format!(
                                "[C02] {}: value per LP fell: reserves {:?} supply {s0} -> reserves {:?} supply {s1}",
                                step.describe(), p0.reserves, p1.reserves
                            ));
                        }
                        st.bump(if *single { "c02: cp single-asset deposit" } else { "c02: cp deposit into funded pool" });
                        if minted_total > 0 {
                            st.mark();
                        }
                    }
                }
                Kind::Ss { .. } => {
                    let d1 = p1.d_scaled(0);
                    if s0 == 0 {
                        if big(s1) > &d1 + big(2) {
                            let msg = format!("[C02] {}: first stableswap deposit minted supply {s1} > exact D {d1} + 2 (reserves {:?} decimals {:?})", step.describe(), p1.reserves, p1.decimals);
                            let excess = big(s1) - &d1;
                            if !ss_known(p1, p1, &excess, &d1, st, &msg) {
                                return Err(msg);
                            }
                        }
                        st.bump("c02: ss first deposit");
                    } else {
                        let d0 = p0.d_scaled(0);
                        // (S0+m)(D0-2) <= S0 (D1+2)
                        let holds = |da: &BigUint| big(s1) * (if *da > big(2) { da - big(2) } else { BigUint::zero() }) <= big(s0) * (&d1 + big(2));
                        if !holds(&d0) {
                            let lhs = big(s1) * (if d0 > big(2) { &d0 - big(2) } else { BigUint::zero() });
                            let rhs = big(s0) * (&d1 + big(2));
                            let excess_units = (&lhs - &rhs) / big(s0.max(1)) + big(1);
                            let msg = format!(
                                "[C02] {}: stableswap deposit minted {minted_total} LP: supply {s0}->{s1} grew faster than exact D {d0}->{d1} (excess worth {excess_units} units of D; reserves {:?} -> {:?}, decimals {:?})",
                                step.describe(), p0.reserves, p1.reserves, p0.decimals
                            );
                            // a single-asset deposit swaps internally first: if the deposit phase alone
                            // (post-swap state -> final state) respects the bound, the loss is the swap's
                            let mut attributed = false;
                            if *single {
                                if let Ok((execs, _)) = swap_execs(step) {
                                    if let Some(x) = execs.first() {
                                        let d_mid = x.after.d_scaled(0);
                                        if holds(&d_mid) {
                                            match classify_swap_value(x, &step.describe()) {
                                                Ok(Some((k, m2))) => {
                                                    st.known(k, || format!("{msg} — caused by its internal swap: {m2}"));
                                                    attributed = true;
                                                }
                                                Ok(None) => {}
                                                Err(m2) => return Err(format!("{msg} — its internal swap: {m2}")),
                                            }
                                        }
                                    }
                                }
                            }
                            if !attributed && !ss_known(p0, p1, &excess_units, &d1, st, &msg) {
                                return Err(msg);
                            }
                        }
                        st.bump(if *single { "c02: ss single-asset deposit" } else if deposits.len() < p0.n() { "c02: ss partial-set deposit" } else { "c02: ss deposit into funded pool" });
                        if minted_total > 0 {
                            st.mark();
                        }
                    }
                }
            }
        }
        Kinded::Withdraw { pool, lp } => {
            let p0 = step.pre.pools.get(pool).ok_or("[harness] withdraw on unknown pool")?;
            let p1 = step.post.pools.get(pool).ok_or("[harness] pool vanished")?;
            if p0.supply - p1.supply != *lp {
                return Err(format!("[C02] {}: burnt {} LP, sent {lp}", step.describe(), p0.supply - p1.supply));
            }
            let mut fractional = false;
            for i in 0..p0.n() {
                let paid = p0.reserves[i].checked_sub(p1.reserves[i]).ok_or_else(|| format!("[C02] {}: reserve grew on withdrawal", step.describe()))?;
                let num = big(p0.reserves[i]) * big(*lp);
                let cap = &num / big(p0.supply);
                if (&num % big(p0.supply)) != BigUint::zero() {
                    fractional = true;
                }
                if big(paid) > cap {
                    return Err(format!("[C02] {}: withdrawal paid {paid} {} > reserve*burned/supply = {cap}", step.describe(), p0.denoms[i]));
                }
                if big(paid) + big(1) < cap {
                    let short = &cap - big(paid);
                    return Err(format!(
                        "[C02] {}: withdrawal paid {paid} {} but reserve*burned/supply = {cap} (short by {short} > 1 unit; reserve {} supply {})",
                        step.describe(), p0.denoms[i], p0.reserves[i], p0.supply
                    ));
                }
                // the sender, and only the sender, receives it
                let got = step.post.snap.bal(&step.sender_label, &p0.denoms[i]) as i128 - step.pre.snap.bal(&step.sender_label, &p0.denoms[i]) as i128;
                if got != paid as i128 {
                    return Err(format!("[C02] {}: pool paid {paid} {} but the sender received {got}", step.describe(), p0.denoms[i]));
                }
            }
            st.bump("c02: withdrawal");
            if fractional {
                st.bump("c02: withdrawal with a fractional share");
                st.mark();
            }
        }
        _ => {}
    }
    Ok(())
}

/// Known stableswap numeric findings (signatures shared with the C19 oracle): true when the
/// deviation falls inside an *open* signature, and the hit is recorded.
pub fn ss_known(p0: &PoolView, p1: &PoolView, excess_units: &BigUint, reference: &BigUint, st: &mut Stats, msg: &str) -> bool {
    let amp = match p0.kind {
        Kind::Ss { amp } => amp,
        _ => return false,
    };
    let skew = p0.skew().max(p1.skew());
    let size = size_micro_tokens(p0).min(size_micro_tokens(p1));
    match crate::props::c19::ss_known_key(amp, skew, &size, excess_units, reference) {
        Some(k) => {
            st.known(k, || msg.to_string());
            true
        }
        None => false,
    }
}

/// total normalised reserves in 10^-6 whole tokens
pub fn size_micro_tokens(p: &PoolView) -> BigUint {
    let s: BigUint = p.normalised().iter().sum();
    s * pow10(6) / pow10(p.max_dec() as u32)
}

// ------------------------------------------------------------------------------------------------
// C03

/// Value check of one executed swap. Ok(None): the exact invariant did not decrease.
/// Ok(Some((key, msg))): it decreased inside an open known-finding signature. Err: violation.
pub fn classify_swap_value(x: &SwapExec, ctx: &str) -> Result<Option<(&'static str, String)>, String> {
    match x.before.kind {
        Kind::Cp => {
            if x.after.product() < x.before.product() {
                return Err(format!(
                    "[C03] {ctx}: {} swap on {} lowered x*y: reserves {:?} -> {:?}",
                    x.path, x.before.id, x.before.reserves, x.after.reserves
                ));
            }
            Ok(None)
        }
        Kind::Ss { amp } => {
            if !x.before.all_reserves_positive() {
                return Ok(None);
            }
            let d0 = x.before.d_scaled(9);
            let d1 = x.after.d_scaled(9);
            if d1 >= d0 {
                return Ok(None);
            }
            // how far below the exact minimal ask reserve did the swap leave the pool?
            let xs1 = x.after.normalised();
            let others: Vec<BigUint> = xs1.iter().enumerate().filter(|(i, _)| *i != x.ai).map(|(_, v)| v.clone()).collect();
            let yc = exact::y_ceil(&others, amp, &d0, &pow10(9));
            let scale = pow10((x.before.max_dec() - x.before.decimals[x.ai]) as u32);
            let have = &xs1[x.ai];
            let deficit_units = if &yc > have { (&yc - have + &scale - big(1)) / &scale } else { BigUint::zero() };
            let msg = format!(
                "[C03] {ctx}: {} swap on stableswap {} (amp {amp}) lowered the exact invariant: D·1e9 {d0} -> {d1}; ask reserve is {deficit_units} unit(s) below the exact minimum; reserves {:?} -> {:?} decimals {:?}",
                x.path, x.before.id, x.before.reserves, x.after.reserves, x.before.decimals
            );
            if kf_open("c03-ss-no-pool-favouring-rounding") && deficit_units <= big(3) {
                return Ok(Some(("c03-ss-no-pool-favouring-rounding", msg)));
            }
            let skew = x.before.skew().max(x.after.skew());
            if std::env::var("DEXCHECK_SURVEY").is_ok() {
                // development aid: report the deficit by class instead of judging it
                let sz = size_micro_tokens(&x.before).min(size_micro_tokens(&x.after));
                let cls = format!(
                    "SURVEY deficit={} n={} amp{} skew{} {}",
                    deficit_units.to_string().chars().take(6).collect::<String>(),
                    x.before.n(),
                    if amp <= 3 { "<=3" } else if amp <= 10 { "<=10" } else if amp <= 100 { "<=100" } else { ">100" },
                    if skew < 3 { "<3" } else if skew < 30 { "<30" } else { ">=30" },
                    if sz < big(100_000) { "dust" } else { "nondust" }
                );
                return Ok(Some((Box::leak(cls.into_boxed_str()), msg)));
            }
            let size = size_micro_tokens(&x.before).min(size_micro_tokens(&x.after));
            match crate::props::c19::ss_known_key(amp, skew, &size, &deficit_units, &BigUint::zero()) {
                Some(k) => Ok(Some((k, msg))),
                None => Err(msg),
            }
        }
    }
}

pub fn check_swap_value(x: &SwapExec, st: &mut Stats, ctx: &str) -> Result<(), String> {
    match x.before.kind {
        Kind::Cp => st.bump("c03: cp swaps"),
        Kind::Ss { .. } => st.bump("c03: ss swaps"),
    }
    if let Some((k, msg)) = classify_swap_value(x, ctx)? {
        st.known(k, || msg);
    }
    if x.ret > 0 {
        st.mark();
    }
    Ok(())
}

pub fn mon_c03(_sim: &Sim, step: &Step, st: &mut Stats) -> Result<(), String> {
    if !step.ok() {
        return Ok(());
    }
    let Some((execs, tracked)) = observe(step, st, "C03") else { return Ok(()) };
    if matches!(step.kind, Kinded::Swap { .. } | Kinded::Route { .. } | Kinded::Provide { single: true, .. }) {
        crosscheck_tracked(step, &tracked).map_err(|e| format!("[C03] {}: {e}", step.describe()))?;
    }
    for x in execs.iter() {
        st.bump(&format!("c03: {} swaps", x.path));
        check_swap_value(x, st, &step.describe())?;
    }
    Ok(())
}

// ------------------------------------------------------------------------------------------------
// C19 in histories: what every executed stableswap swap - direct, each hop of a route (also when a
// route comes back to a pool it has already traded on), the internal swap of a one-asset deposit -
// delivered, against the exact solution of the invariant on the reserves that hop actually met

/// The executed swaps are read from the response events (the only place where the hops of a route
/// are visible one by one). If the events cannot be read - another attribute layout, say - that is
/// a limitation of this harness, not a verdict: the check becomes inconclusive (exit 2).
fn observe(step: &Step, st: &mut Stats, prop: &str) -> Option<(Vec<SwapExec>, BTreeMap<String, PoolView>)> {
    match swap_execs(step) {
        Ok(x) => Some(x),
        Err(e) => {
            if st.harness_panics.len() < 3 {
                st.harness_panics.push(format!("[{prop}] {}: cannot observe the executed swaps from the response events: {e}", step.describe()));
            }
            None
        }
    }
}

pub fn mon_c19(_sim: &Sim, step: &Step, st: &mut Stats) -> Result<(), String> {
    if !step.ok() {
        return Ok(());
    }
    let Some((execs, _)) = observe(step, st, "C19") else { return Ok(()) };
    let mut seen: BTreeSet<String> = BTreeSet::new();
    for x in execs.iter() {
        let revisit = !seen.insert(x.before.id.clone());
        let amp = match x.before.kind {
            Kind::Ss { amp } => amp,
            _ => continue,
        };
        let p = &x.before;
        if !p.all_reserves_positive() || x.offer == 0 {
            continue;
        }
        // the property speaks about skews up to 1000:1 and reserves up to 10^30 units; generated
        // histories go far beyond both (and the numeric engines cover the range systematically)
        {
            let mut a = p.reserves.clone();
            a[x.oi] = a[x.oi].saturating_add(x.offer);
            let skew = crate::props::c19::skew_of(&a, &p.decimals).max(crate::props::c19::skew_of(&p.reserves, &p.decimals));
            if skew > 1000 || p.reserves.iter().any(|r| *r > 10u128.pow(30)) || x.offer > 10u128.pow(30) {
                st.bump("c19: swaps outside the property's range (skew above 1000:1 or above 10^30 units)");
                continue;
            }
        }
        let net = |g: &BigUint| -> BigUint {
            let g128 = u128::try_from(g.clone()).unwrap_or(u128::MAX);
            let fees: u128 = fee_floor(g128, p.swap_fee) + fee_floor(g128, p.protocol_fee) + fee_floor(g128, p.burn_fee) + p.extra_fees.iter().map(|s| fee_floor(g128, *s)).sum::<u128>();
            big(g128.saturating_sub(fees))
        };
        let (lo_m2, _) = exact::exact_swap_bracket(&p.reserves, &p.decimals, amp, x.oi, x.ai, x.offer.saturating_sub(2), 9);
        let (_, hi_p2) = exact::exact_swap_bracket(&p.reserves, &p.decimals, amp, x.oi, x.ai, x.offer.saturating_add(2), 9);
        let lower_g = if lo_m2 > big(2) { &lo_m2 - big(2) } else { BigUint::zero() };
        let upper_g = (&hi_p2 + big(2)).min(big(p.reserves[x.ai]));
        // one more unit per side for the floors of the fee split
        let lower = { let n = net(&lower_g); if n > big(1) { n - big(1) } else { BigUint::zero() } };
        let upper = net(&upper_g) + big(1);
        let got = big(x.ret);
        st.bump(&format!("c19: {} stableswap swaps priced", x.path));
        if revisit {
            st.bump("c19: hop on a pool the same route already traded on");
            st.mark();
        }
        if got >= lower && got <= upper {
            continue;
        }
        let dev = if got > upper { &got - &upper } else { &lower - &got };
        let skew = {
            let mut a = p.reserves.clone();
            a[x.oi] = a[x.oi].saturating_add(x.offer);
            crate::props::c19::skew_of(&a, &p.decimals).max(crate::props::c19::skew_of(&p.reserves, &p.decimals))
        };
        let sz = crate::props::c19::size_micro(&p.reserves, &p.decimals);
        let msg = format!(
            "[C19] {}: {} swap on stableswap {} (amp {amp}, reserves {:?}, decimals {:?}) of {} delivered {} but the exact invariant on these reserves allows [{lower}, {upper}] after fees",
            step.describe(),
            x.path,
            p.id,
            p.reserves,
            p.decimals,
            x.offer,
            x.ret
        );
        match crate::props::c19::ss_known_key(amp, skew, &sz, &dev, &big(p.reserves[x.ai])) {
            Some(k) => st.known(k, || msg),
            None => return Err(msg),
        }
    }
    Ok(())
}

// ------------------------------------------------------------------------------------------------
// C04

fn deltas(step: &Step) -> BTreeMap<(String, String), i128> {
    let mut m = BTreeMap::new();
    let keys: BTreeSet<_> = step.pre.snap.balances.keys().chain(step.post.snap.balances.keys()).cloned().collect();
    for k in keys {
        let a = step.pre.snap.balances.get(&k).copied().unwrap_or(0) as i128;
        let b = step.post.snap.balances.get(&k).copied().unwrap_or(0) as i128;
        if a != b {
            m.insert(k, b - a);
        }
    }
    m
}
fn supply_deltas(step: &Step) -> BTreeMap<String, i128> {
    let mut m = BTreeMap::new();
    let keys: BTreeSet<_> = step.pre.snap.supply.keys().chain(step.post.snap.supply.keys()).cloned().collect();
    for k in keys {
        let a = step.pre.snap.supply.get(&k).copied().unwrap_or(0) as i128;
        let b = step.post.snap.supply.get(&k).copied().unwrap_or(0) as i128;
        if a != b {
            m.insert(k, b - a);
        }
    }
    m
}
fn add(m: &mut BTreeMap<(String, String), i128>, who: &str, denom: &str, v: i128) {
    if v == 0 {
        return;
    }
    let e = m.entry((who.to_string(), denom.to_string())).or_insert(0);
    *e += v;
    if *e == 0 {
        m.remove(&(who.to_string(), denom.to_string()));
    }
}

/// fee amounts of one executed swap, as the contract's own pricing function computes them for the
/// pool state right before it (the split is then verified against exact floors and the bank)
pub struct Claimed {
    pub ret: u128,
    pub swap: u128,
    pub protocol: u128,
    pub burn: u128,
    pub extra: u128,
}
pub fn claimed_for(x: &SwapExec) -> Result<Claimed, String> {
    let offer = coin(x.offer, &x.before.denoms[x.oi]);
    let r = std::panic::catch_unwind(|| pool_manager::helpers::compute_swap(&x.info_before, &offer, &x.before.denoms[x.ai]));
    match r {
        Ok(Ok(c)) => Ok(Claimed {
            ret: c.return_amount.u128(),
            swap: c.swap_fee_amount.u128(),
            protocol: c.protocol_fee_amount.u128(),
            burn: c.burn_fee_amount.u128(),
            extra: c.extra_fees_amount.u128(),
        }),
        Ok(Err(e)) => Err(format!("pricing function refuses a swap that was executed: {e}")),
        Err(_) => Err("pricing function panics on a swap that was executed".into()),
    }
}

pub fn mon_c04(_sim: &Sim, step: &Step, st: &mut Stats) -> Result<(), String> {
    if !step.ok() {
        return Ok(());
    }
    let (is_swap, receiver) = match &step.kind {
        Kinded::Swap { receiver, .. } => (true, receiver.clone()),
        Kinded::Route { receiver, .. } => (true, receiver.clone()),
        _ => (false, None),
    };
    if !is_swap {
        return Ok(());
    }
    let d = step.describe();
    let Some((execs, tracked)) = observe(step, st, "C04") else { return Ok(()) };
    crosscheck_tracked(step, &tracked).map_err(|e| format!("[C04] {d}: {e}"))?;
    let collector = step.post_label(step.pre.config.fee_collector_addr.as_str());
    let recv = match &receiver {
        Some(r) => step.post_label(r),
        None => step.sender_label.clone(),
    };
    let mut expect: BTreeMap<(String, String), i128> = BTreeMap::new();
    let mut expect_supply: BTreeMap<String, i128> = BTreeMap::new();
    let mut prev_ret: Option<(String, u128)> = None;
    let mut multi_fee = false;
    for (k, x) in execs.iter().enumerate() {
        let din = &x.before.denoms[x.oi];
        let dout = &x.before.denoms[x.ai];
        // each hop consumes exactly the previous hop's output
        if let Some((pd, pr)) = &prev_ret {
            if pd != din || *pr != x.offer {
                return Err(format!("[C04] {d}: hop {k} consumed {} {din} but the previous hop delivered {pr} {pd}", x.offer));
            }
        } else {
            let sent = match &step.kind {
                Kinded::Swap { offer, .. } | Kinded::Route { offer, .. } => offer.amount.u128(),
                _ => 0,
            };
            if x.offer != sent {
                return Err(format!("[C04] {d}: first swap consumed {} but {sent} was offered", x.offer));
            }
        }
        let c = claimed_for(x).map_err(|e| format!("[C04] {d}: {e}"))?;
        if c.ret != x.ret {
            return Err(format!("[C04] {d}: hop {k} delivered {} but the pricing of that state gives {}", x.ret, c.ret));
        }
        // offer added in full; ask reserve falls by exactly what leaves the contract
        let d_offer = x.after.reserves[x.oi] as i128 - x.before.reserves[x.oi] as i128;
        let d_ask = x.before.reserves[x.ai] as i128 - x.after.reserves[x.ai] as i128;
        if d_offer != x.offer as i128 {
            return Err(format!("[C04] {d}: hop {k}: offer reserve changed by {d_offer}, offered {}", x.offer));
        }
        let leaves = (c.ret + c.protocol + c.burn) as i128;
        if d_ask != leaves {
            return Err(format!(
                "[C04] {d}: hop {k}: ask reserve fell by {d_ask} but return {} + protocol fee {} + burn fee {} = {leaves} leave the contract",
                c.ret, c.protocol, c.burn
            ));
        }
        for i in 0..x.before.n() {
            if i != x.oi && i != x.ai && x.before.reserves[i] != x.after.reserves[i] {
                return Err(format!("[C04] {d}: hop {k}: reserve of an uninvolved asset changed"));
            }
        }
        // each fee is the configured share of the gross output, rounded down
        let gross = c.ret + c.swap + c.protocol + c.burn + c.extra;
        let p = &x.before;
        let want_extra: u128 = p.extra_fees.iter().map(|s| fee_floor(gross, *s)).sum();
        for (name, got, want) in [
            ("swap", c.swap, fee_floor(gross, p.swap_fee)),
            ("protocol", c.protocol, fee_floor(gross, p.protocol_fee)),
            ("burn", c.burn, fee_floor(gross, p.burn_fee)),
            ("extra", c.extra, want_extra),
        ] {
            if got != want {
                return Err(format!("[C04] {d}: hop {k}: {name} fee is {got}, configured share of the gross output {gross} rounded down is {want}"));
            }
        }
        if [c.swap, c.protocol, c.burn, c.extra].iter().filter(|v| **v > 0).count() >= 2 {
            multi_fee = true;
        }
        // what leaves the contract at this hop besides the forwarded output
        add(&mut expect, "pool_manager", dout, -((c.protocol + c.burn) as i128));
        add(&mut expect, &collector, dout, c.protocol as i128);
        if c.burn > 0 {
            *expect_supply.entry(dout.clone()).or_insert(0) -= c.burn as i128;
        }
        prev_ret = Some((dout.clone(), c.ret));
    }
    // the sender pays the first offer; only the final output reaches the receiver; intermediate
    // outputs never leave the contract
    if let Some(first) = execs.first() {
        let din = &first.before.denoms[first.oi];
        add(&mut expect, &step.sender_label, din, -(first.offer as i128));
        add(&mut expect, "pool_manager", din, first.offer as i128);
    }
    if let Some((dd, r)) = &prev_ret {
        add(&mut expect, &recv, dd, *r as i128);
        add(&mut expect, "pool_manager", dd, -(*r as i128));
    }
    let actual = deltas(step);
    if actual != expect {
        return Err(format!("[C04] {d}: balance changes {:?} differ from what the swap(s) entitle {:?}", actual, expect));
    }
    let actual_supply = supply_deltas(step);
    expect_supply.retain(|_, v| *v != 0);
    if actual_supply != expect_supply {
        return Err(format!("[C04] {d}: supply changes {:?} differ from the burn fees {:?}", actual_supply, expect_supply));
    }
    // LP supplies and uninvolved pools unchanged
    for (id, p1) in step.post.pools.iter() {
        if let Some(p0) = step.pre.pools.get(id) {
            if !tracked.contains_key(id) && p0 != p1 {
                return Err(format!("[C04] {d}: pool {id} not on the route changed"));
            }
        }
    }
    st.bump("c04: swaps checked");
    if execs.len() >= 2 {
        st.bump("c04: routes with >= 2 hops");
        st.mark();
    }
    if multi_fee {
        st.bump("c04: swaps with >= 2 non-zero fees");
        st.mark();
    }
    Ok(())
}

// ------------------------------------------------------------------------------------------------
// C12

fn protection_error(e: &str) -> bool {
    // by wording, case-insensitively and a little wider than today's texts ("Slippage limit
    // exceeded", "Minimum receive amount not met", "Operation disabled, …"), so that a reworded
    // message does not turn into an alarm
    let e = e.to_lowercase();
    e.contains("slippage")
        || e.contains("spread")
        || e.contains("minimum receive")
        || e.contains("minimumreceive")
        || e.contains("min receive")
        || e.contains("disabled")
        || e.contains("belief")
        // the slippage assertion divides by (return + spread): a swap whose return and spread are
        // both zero panics there, i.e. inside the price protection (the quote path has no such division)
        || e.contains("denominator must not be zero")
        || e.contains("divide by zero")
        || e.contains("division by zero")
}

/// Would the documented price protection refuse this swap, judged from the figures of the quote
/// alone (no wording involved)? None = within a few units / 2e-18 of the threshold.
pub fn protection_refuses(q: &pm::SimulationResponse, offer: u128, slip: Option<Decimal>, belief: Option<Decimal>) -> Option<bool> {
    let dec18 = big(1_000_000_000_000_000_000);
    let tol = big(slip.map(|d| d.atomics().u128()).unwrap_or(10_000_000_000_000_000).min(500_000_000_000_000_000));
    let ret = big(q.return_amount.u128());
    if let Some(b) = belief {
        let b = big(b.atomics().u128());
        if b.is_zero() {
            return Some(true);
        }
        // refused iff return < expected and (expected - return)/expected > tol, expected = offer / belief
        let expected = big(offer) * &dec18 / &b;
        let thr = &expected * (&dec18 - &tol) / &dec18; // the smallest acceptable return, roughly
        if &ret + big(3) < thr {
            Some(true)
        } else if ret > &thr + big(3) {
            Some(false)
        } else {
            None
        }
    } else {
        let spread = big(q.slippage_amount.u128());
        let den = &ret + &spread;
        if den.is_zero() {
            return Some(true);
        }
        // refused iff spread / (return + spread) > tol
        let l = &spread * &dec18;
        let r = &tol * &den;
        let band = big(2) * &den;
        if l > &r + &band {
            Some(true)
        } else if &l + &band < r {
            Some(false)
        } else {
            None
        }
    }
}

pub fn mon_c12(_sim: &Sim, step: &Step, st: &mut Stats) -> Result<(), String> {
    let d = step.describe();
    match (&step.kind, &step.quote) {
        (Kinded::Swap { pool, offer, ask, receiver, slip, belief }, Some(Quote::Swap(q))) => match (q, &step.result) {
            (Ok(q), Ok(_)) => {
                let p0 = &step.pre.pools[pool];
                let p1 = &step.post.pools[pool];
                let (oi, ai) = (p0.idx(&offer.denom).unwrap(), p0.idx(ask).unwrap());
                let collector = step.post_label(step.pre.config.fee_collector_addr.as_str());
                let recv = match receiver {
                    Some(r) => step.post_label(r),
                    None => step.sender_label.clone(),
                };
                let mut expect = BTreeMap::new();
                add(&mut expect, &step.sender_label, &offer.denom, -(offer.amount.u128() as i128));
                add(&mut expect, "pool_manager", &offer.denom, offer.amount.u128() as i128);
                add(&mut expect, "pool_manager", ask, -((q.return_amount + q.protocol_fee_amount + q.burn_fee_amount).u128() as i128));
                add(&mut expect, &recv, ask, q.return_amount.u128() as i128);
                add(&mut expect, &collector, ask, q.protocol_fee_amount.u128() as i128);
                let actual = deltas(step);
                if actual != expect {
                    return Err(format!("[C12] {d}: the quote {:?} entitles balance changes {:?}, the swap made {:?}", q, expect, actual));
                }
                let burn = supply_deltas(step).get(ask).copied().unwrap_or(0);
                if burn != -(q.burn_fee_amount.u128() as i128) {
                    return Err(format!("[C12] {d}: quoted burn fee {} but supply changed by {burn}", q.burn_fee_amount));
                }
                if p1.reserves[oi] != p0.reserves[oi] + offer.amount.u128()
                    || p0.reserves[ai] - p1.reserves[ai] != (q.return_amount + q.protocol_fee_amount + q.burn_fee_amount).u128()
                {
                    return Err(format!("[C12] {d}: reserves moved {:?} -> {:?}, not as quoted {:?}", p0.reserves, p1.reserves, q));
                }
                // fee amounts that stay in the pool are only visible in the response attributes
                for ev in step.wasm_events() {
                    if attr(&ev, "action") == Some("swap") {
                        for (k, v) in [
                            ("swap_fee_amount", q.swap_fee_amount),
                            ("extra_fees_amount", q.extra_fees_amount),
                            ("return_amount", q.return_amount),
                            ("protocol_fee_amount", q.protocol_fee_amount),
                            ("burn_fee_amount", q.burn_fee_amount),
                        ] {
                            if let Some(a) = attr_u128(&ev, k) {
                                if a != v.u128() {
                                    return Err(format!("[C12] {d}: quoted {k} {v} but the swap reports {a}"));
                                }
                            }
                        }
                    }
                }
                st.bump("c12: direct swap quote == execution");
                if step.idx >= 6 {
                    st.mark();
                }
            }
            (Err(e), Ok(_)) => {
                return Err(format!("[C12] {d}: Simulation refused ({e}) a swap that then executed"));
            }
            (Ok(_), Err(_)) if step.pre.snap.bal(&step.sender_label, &offer.denom) < offer.amount.u128() => {
                st.bump("c12: sender cannot pay the offer");
            }
            (Ok(q), Err(e)) => {
                if q.return_amount.is_zero() {
                    // a swap that would deliver nothing may be refused: nothing is produced either way
                    st.bump("c12: quoted zero output, swap refused");
                } else if !step.pre.pools[pool].swaps_enabled {
                    st.bump("c12: quoted, swaps switched off");
                } else if protection_refuses(q, offer.amount.u128(), *slip, *belief) == Some(true) {
                    // decided from the quote's own figures: the documented protection refuses this trade
                    st.bump("c12: quoted, rejected by a protection");
                } else if !protection_error(e) {
                    return Err(format!("[C12] {d}: Simulation quoted {:?} but the swap failed for a reason other than a price protection or a switch: {e}", q));
                } else {
                    st.bump("c12: quoted, rejected by a protection");
                }
            }
            (Err(_), Err(_)) => st.bump("c12: quote and swap both refused"),
        },
        (Kinded::Route { hops, offer, receiver, simple, min, slip }, Some(Quote::Route(q))) => {
            if !*simple {
                st.bump("c12: route revisits a pool (outside the property)");
                return Ok(());
            }
            match (q, &step.result) {
                (Ok(q), Ok(_)) => {
                    let last = hops.last().unwrap();
                    let recv = match receiver {
                        Some(r) => step.post_label(r),
                        None => step.sender_label.clone(),
                    };
                    // the receiver's only income is the final amount; if the receiver is also the
                    // sender / fee collector other flows overlap, so compare through the events too
                    let mut final_amount = None;
                    for ev in step.wasm_events() {
                        if attr(&ev, "action") == Some("execute_swap_operations") {
                            final_amount = attr_u128(&ev, "return_amount");
                        }
                    }
                    let collector = step.post_label(step.pre.config.fee_collector_addr.as_str());
                    if recv != step.sender_label && recv != collector || hops.iter().all(|h| h.denom_in != last.denom_out) && recv != collector {
                        let got = step.post.snap.bal(&recv, &last.denom_out) as i128 - step.pre.snap.bal(&recv, &last.denom_out) as i128;
                        if got != q.return_amount.u128() as i128 {
                            return Err(format!("[C12] {d}: SimulateSwapOperations quoted {} but the receiver got {got}", q.return_amount));
                        }
                    } else if let Some(f) = final_amount {
                        if f != q.return_amount.u128() {
                            return Err(format!("[C12] {d}: SimulateSwapOperations quoted {} but the route reports {f}", q.return_amount));
                        }
                    }
                    let _ = offer;
                    st.bump("c12: route quote == execution");
                    if hops.len() >= 2 {
                        st.bump("c12: routes with >= 2 hops");
                        st.mark();
                    }
                }
                (Err(e), Ok(_)) => return Err(format!("[C12] {d}: SimulateSwapOperations refused ({e}) a route that then executed")),
                (Ok(_), Err(_)) if step.pre.snap.bal(&step.sender_label, &offer.denom) < offer.amount.u128() => {
                    st.bump("c12: sender cannot pay the offer");
                }
                (Ok(q), Err(e)) => {
                    // judged from the state and the figures first, from the wording last: a switched-off
                    // pool on the route, a minimum above the quote, or a hop whose own Simulation
                    // figures make the documented protection refuse (the refused route left the state
                    // as it was, so the hops can be quoted one by one now)
                    let switched_off = hops.iter().any(|h| step.pre.pools.get(&h.pool).map(|p| !p.swaps_enabled).unwrap_or(false));
                    let below_min = min.map(|m| m > q.return_amount.u128()).unwrap_or(false);
                    let hop_refuses = {
                        let mut a = offer.amount.u128();
                        let mut refuses = false;
                        for h in hops.iter() {
                            match _sim.w.simulate(&h.pool, coin(a, &h.denom_in), &h.denom_out) {
                                Ok(hq) => {
                                    if protection_refuses(&hq, a, *slip, None) == Some(true) {
                                        refuses = true;
                                        break;
                                    }
                                    a = hq.return_amount.u128();
                                }
                                Err(_) => break,
                            }
                        }
                        refuses
                    };
                    if q.return_amount.is_zero() {
                        st.bump("c12: quoted zero output, route refused");
                    } else if switched_off {
                        st.bump("c12: quoted, swaps switched off");
                    } else if below_min || hop_refuses {
                        st.bump("c12: quoted, rejected by a protection");
                    } else if !protection_error(e) {
                        return Err(format!("[C12] {d}: SimulateSwapOperations quoted {} but the route failed for a reason other than a price protection or a switch: {e}", q.return_amount));
                    } else {
                        st.bump("c12: quoted, rejected by a protection");
                    }
                }
                (Err(_), Err(_)) => st.bump("c12: quote and route both refused"),
            }
        }
        _ => {}
    }
    Ok(())
}

// ------------------------------------------------------------------------------------------------
// C16 (immutability part) and C20 (rejection part)

pub fn mon_c16(_sim: &Sim, step: &Step, st: &mut Stats) -> Result<(), String> {
    for (id, p0) in step.pre.pools.iter() {
        let p1 = step.post.pools.get(id).ok_or_else(|| format!("[C16] {}: pool {id} was removed", step.describe()))?;
        if p0.denoms != p1.denoms
            || p0.decimals != p1.decimals
            || p0.kind != p1.kind
            || p0.lp_denom != p1.lp_denom
            || (p0.protocol_fee, p0.swap_fee, p0.burn_fee, &p0.extra_fees) != (p1.protocol_fee, p1.swap_fee, p1.burn_fee, &p1.extra_fees)
        {
            return Err(format!("[C16] {}: immutable parameters of pool {id} changed: {:?} -> {:?}", step.describe(), p0, p1));
        }
        let i0 = &step.pre.infos[id];
        let i1 = &step.post.infos[id];
        if i0.asset_denoms != i1.asset_denoms || i0.pool_identifier != i1.pool_identifier || i1.pool_identifier != *id {
            return Err(format!("[C16] {}: pool {id} identity changed", step.describe()));
        }
        // the assets list keeps naming exactly the pool's denoms
        let mut a: Vec<&String> = i1.assets.iter().map(|c| &c.denom).collect();
        let mut b: Vec<&String> = i1.asset_denoms.iter().collect();
        a.sort();
        b.sort();
        if a != b {
            return Err(format!("[C16] {}: pool {id} reserves name other denoms than its assets", step.describe()));
        }
    }
    let mut lps = BTreeSet::new();
    for p in step.post.pools.values() {
        if !lps.insert(p.lp_denom.clone()) {
            return Err(format!("[C16] {}: two pools share the LP denom {}", step.describe(), p.lp_denom));
        }
    }
    st.bump("c16: immutability checks");
    Ok(())
}

pub fn mon_c20(_sim: &Sim, step: &Step, st: &mut Stats) -> Result<(), String> {
    if step.ok() {
        return Ok(());
    }
    if step.pre.snap != step.post.snap {
        let diff = step.pre.snap.diff(&step.post.snap);
        return Err(format!("[C20] {} was rejected but left a trace: {}", step.describe(), diff.join("; ")));
    }
    st.bump("c20: rejected messages compared");
    Ok(())
}

impl Step {
    /// label of an address in the snapshot's account table
    pub fn post_label(&self, addr: &str) -> String {
        self.labels.get(addr).cloned().unwrap_or_else(|| addr.to_string())
    }
}
