//! Interpreter of pool histories: resolves each generated op against the current state, sends the
//! message (valid or not) to the real contracts and records what was observed around it.
use std::collections::BTreeMap;

use cosmwasm_std::{coin, Addr, Coin, Decimal, Uint128};
use cw_multi_test::AppResponse;
use mantra_dex_std::pool_manager as pm;

use super::ops::*;
use crate::framework::pick;
use crate::poolview::{Kind, PoolView};
use crate::world::{Snapshot, World, WorldCfg};

#[derive(Clone)]
pub struct Obs {
    pub snap: Snapshot,
    pub pools: BTreeMap<String, PoolView>,
    pub infos: BTreeMap<String, pm::PoolInfo>,
    pub config: pm::Config,
}

impl Obs {
    pub fn take(w: &World) -> Obs {
        let resp = w.pools();
        let mut pools = BTreeMap::new();
        let mut infos = BTreeMap::new();
        for r in resp.iter() {
            let v = PoolView::from_response(r);
            infos.insert(v.id.clone(), r.pool_info.clone());
            pools.insert(v.id.clone(), v);
        }
        let config: pm::Config = w.query(&w.pool_manager, &pm::QueryMsg::Config {}).unwrap();
        Obs { snap: Snapshot::take(w), pools, infos, config }
    }
    pub fn pool_ids(&self) -> Vec<String> {
        self.pools.keys().cloned().collect()
    }
}

#[derive(Debug, Clone)]
pub struct Hop {
    pub pool: String,
    pub denom_in: String,
    pub denom_out: String,
}

#[derive(Debug, Clone)]
pub enum Quote {
    Swap(Result<pm::SimulationResponse, String>),
    Route(Result<pm::SimulateSwapOperationsResponse, String>),
}

#[derive(Debug, Clone)]
pub enum Kinded {
    Create { spec: CreateSpec, denoms: Vec<String>, decimals: Vec<u8>, funds: Vec<Coin>, identifier: Option<String> },
    Provide {
        pool: String,
        deposits: Vec<Coin>,
        receiver: Option<String>,
        lock: Option<LockSpec>,
        lock_id: Option<String>,
        liq_slip: Option<Decimal>,
        swap_slip: Option<Decimal>,
        single: bool,
    },
    Withdraw { pool: String, lp: u128 },
    Swap { pool: String, offer: Coin, ask: String, receiver: Option<String>, slip: Option<Decimal>, belief: Option<Decimal> },
    Route { hops: Vec<Hop>, offer: Coin, receiver: Option<String>, min: Option<u128>, slip: Option<Decimal>, simple: bool },
    Donate { coin: Coin },
    Toggle { pool: String },
    Config,
    Advance,
    Bad(String),
}

pub struct Step {
    pub idx: usize,
    pub sender: String,
    pub sender_label: String,
    pub kind: Kinded,
    pub pre: Obs,
    pub post: Obs,
    pub result: Result<AppResponse, String>,
    pub quote: Option<Quote>,
    /// address -> account label used in snapshots
    pub labels: BTreeMap<String, String>,
}

impl Step {
    pub fn ok(&self) -> bool {
        self.result.is_ok()
    }
    pub fn describe(&self) -> String {
        format!(
            "step {} by {}: {:?} -> {}",
            self.idx,
            self.sender_label,
            self.kind,
            match &self.result {
                Ok(_) => "ok".to_string(),
                Err(e) => format!("rejected ({})", e.lines().last().unwrap_or("").chars().take(160).collect::<String>()),
            }
        )
    }
    /// attribute lists of all `wasm` events of the response
    pub fn wasm_events(&self) -> Vec<Vec<(String, String)>> {
        match &self.result {
            Ok(r) => r
                .events
                .iter()
                .filter(|e| e.ty == "wasm")
                .map(|e| e.attributes.iter().map(|a| (a.key.clone(), a.value.clone())).collect())
                .collect(),
            Err(_) => vec![],
        }
    }
}

pub fn world_cfg(c: &PCfg) -> WorldCfg {
    let mut cfg = WorldCfg::default();
    cfg.denoms = BASE_DENOMS.iter().zip(c.decimals.iter()).map(|(d, x)| (d.to_string(), *x)).collect();
    let cf_denom = BASE_DENOMS[c.creation_fee.1 as usize % 6].to_string();
    cfg.pool_creation_fee = (c.creation_fee.0 as u128, cf_denom.clone());
    // (the token-factory mock burns its fee list on every create-denom and cannot burn an empty
    // list, so "no token-factory fee" is not a configuration the mock supports)
    cfg.tf_fees = match c.tf_variant % 4 {
        0 => vec![(1, "uusdt".into())],
        1 => vec![(1000, "uom".into())],
        2 => vec![(1000, "uom".into()), (500, "uusdc".into())],
        _ => vec![(777, cf_denom)],
    };
    cfg
}

pub struct Sim {
    pub w: World,
    pub steps_done: usize,
    /// tokens sent to the pool manager outside pool operations, per denom
    pub donated: BTreeMap<String, u128>,
    /// single indivisible units left by odd-amount single-asset deposits, per denom
    pub odd_units: BTreeMap<String, u128>,
    pub current_creation_fee: Coin,
    pub last_obs: Option<Obs>,
}

fn label_of(w: &World, a: &str) -> String {
    for (l, x) in w.accounts() {
        if x.as_str() == a {
            return l;
        }
    }
    a.to_string()
}

impl Sim {
    pub fn new(cfg: &PCfg) -> Sim {
        let wc = world_cfg(cfg);
        let w = World::new(wc);
        let fee = w.cfg.creation_fee_coin();
        Sim { w, steps_done: 0, donated: BTreeMap::new(), odd_units: BTreeMap::new(), current_creation_fee: fee, last_obs: None }
    }
    pub fn user(&self, i: u8) -> Addr {
        let i = i as usize;
        if i < self.w.users.len() {
            self.w.users[i].clone()
        } else {
            self.w.owner.clone()
        }
    }
    pub fn obs(&mut self) -> Obs {
        if let Some(o) = &self.last_obs {
            return o.clone();
        }
        let o = Obs::take(&self.w);
        self.last_obs = Some(o.clone());
        o
    }
    fn asset_denom(&self, idx: u8, obs: &Obs) -> String {
        if idx < 6 {
            BASE_DENOMS[idx as usize].to_string()
        } else {
            let ids = obs.pool_ids();
            if ids.is_empty() {
                BASE_DENOMS[(idx % 6) as usize].to_string()
            } else {
                obs.pools[&ids[(idx as usize - 6) % ids.len()]].lp_denom.clone()
            }
        }
    }
    fn asset_decimals(&self, idx: u8) -> u8 {
        if idx < 6 {
            self.w.cfg.denoms[idx as usize].1
        } else {
            6
        }
    }
    /// the lock identifier a deposit names: a fresh raw id, or the full id of an existing position
    /// in this LP token (of any user)
    fn resolve_lock_id(&self, lock: Option<&LockSpec>, lp_denom: &str) -> Option<String> {
        let l = lock?;
        if let Some(i) = l.existing {
            let mut all: Vec<String> = vec![];
            for u in self.w.users.iter().chain(std::iter::once(&self.w.owner)) {
                for p in self.w.all_positions(u) {
                    if p.lp_asset.denom == lp_denom {
                        all.push(p.identifier);
                    }
                }
            }
            all.sort();
            if !all.is_empty() {
                return Some(all[pick(i, all.len())].clone());
            }
        }
        l.id.map(|k| format!("lk{k}"))
    }
    fn pick_pool<'a>(&self, obs: &'a Obs, p: u16) -> Option<&'a PoolView> {
        let ids = obs.pool_ids();
        if ids.is_empty() {
            None
        } else {
            obs.pools.get(&ids[pick(p, ids.len())])
        }
    }

    /// Execute one op; returns what was observed.
    pub fn step(&mut self, op: &POp) -> Step {
        self.step_targeted(op, None)
    }

    /// `target`: force the pool an op acts on (used for the first deposit after a creation)
    pub fn step_targeted(&mut self, op: &POp, target: Option<&str>) -> Step {
        let pre = self.obs();
        let idx = self.steps_done;
        self.steps_done += 1;
        let owner = self.w.owner.clone();
        let pm_addr = self.w.pool_manager.clone();
        let no_pool = "o.none".to_string();
        let choose = |s: &Sim, p: u16| -> Option<PoolView> {
            match target {
                Some(t) => pre.pools.get(t).cloned(),
                None => s.pick_pool(&pre, p).cloned(),
            }
        };
        // prefer pools satisfying `pred` (9 times out of 10 when one exists), else any pool
        let choose_pref = |s: &Sim, p: u16, pred: &dyn Fn(&PoolView) -> bool| -> Option<PoolView> {
            if let Some(t) = target {
                return pre.pools.get(t).cloned();
            }
            let c: Vec<&PoolView> = pre.pools.values().filter(|x| pred(x)).collect();
            if c.is_empty() || p % 10 == 9 {
                s.pick_pool(&pre, p).cloned()
            } else {
                Some(c[pick(p, c.len())].clone())
            }
        };
        let recv_addr = |s: &Sim, r: &Option<u8>| r.map(|i| s.user(i).to_string());
        let mut quote = None;

        let (sender, kind, result): (Addr, Kinded, Result<AppResponse, String>) = match op {
            POp::Create(spec) => {
                let sender = self.user(spec.user);
                let denoms: Vec<String> = spec.assets.iter().map(|a| self.asset_denom(*a, &pre)).collect();
                let decimals: Vec<u8> = spec.assets.iter().map(|a| self.asset_decimals(*a)).collect();
                let funds = self.w.creation_funds(&self.current_creation_fee);
                // 12.. : explicit identifiers that look like stored ones ("p.<n>" = a generated identifier,
                // "o.x<k>" = the stored form of an explicit one): they live in their own namespace
                let identifier = spec.explicit_id.map(|k| match k {
                    0..=11 => format!("x{k}"),
                    12..=14 => format!("p.{}", k - 11),
                    _ => format!("o.x{}", k % 4),
                });
                let msg = pm::ExecuteMsg::CreatePool {
                    asset_denoms: denoms.clone(),
                    asset_decimals: decimals.clone(),
                    pool_fees: spec.fees.to_pool_fee(),
                    pool_type: match spec.amp {
                        None => pm::PoolType::ConstantProduct,
                        Some(a) => pm::PoolType::StableSwap { amp: a },
                    },
                    pool_identifier: identifier.clone(),
                };
                let r = self.w.pm_exec(&sender, &msg, &funds);
                (sender, Kinded::Create { spec: spec.clone(), denoms, decimals, funds, identifier }, r)
            }
            POp::Provide { user, pool, amts, mask, init_exp, liq_slip, receiver, lock } => {
                let sender = self.user(*user);
                match choose(self, *pool) {
                    None => {
                        let r = self.w.provide(&sender, &no_pool, &[coin(1000, "uom")], None, None, None, None, None);
                        (sender, Kinded::Bad("provide to a non-existent pool".into()), r)
                    }
                    Some(p) => {
                        let empty = !p.funded();
                        let mut deposits = vec![];
                        for i in 0..p.n() {
                            if !empty && (mask >> i) & 1 == 0 {
                                continue;
                            }
                            let amount = if empty {
                                let e = p.decimals[i] as i32 + *init_exp as i32;
                                let notional = if e <= 0 { 1u128 } else { 10u128.pow(e.min(33) as u32) };
                                let a = match &amts[i] {
                                    Amt::Rel { ppm } => Amt::Rel { ppm: (*ppm).clamp(1000, 1_000_000) },
                                    Amt::Abs { mant, .. } => Amt::Rel { ppm: 1000 + mant % 999_001 },
                                    Amt::Units(k) => Amt::Rel { ppm: *k as u32 * 100_000 },
                                };
                                a.resolve(notional)
                            } else {
                                amts[i].resolve(p.reserves[i].max(1))
                            };
                            let mut amount = amount.min(10u128.pow(34));
                            if p.denoms[i].starts_with("factory/") {
                                amount = amount.min(self.w.balance(&sender, &p.denoms[i]));
                            }
                            if amount > 0 {
                                deposits.push(coin(amount, &p.denoms[i]));
                            }
                        }
                        let receiver = recv_addr(self, receiver);
                        let lock_id = self.resolve_lock_id(lock.as_ref(), &p.lp_denom);
                        let r = self.w.provide(
                            &sender,
                            &p.id,
                            &deposits,
                            liq_slip.to_decimal(),
                            None,
                            receiver.clone(),
                            lock.as_ref().and_then(|l| l.dur()),
                            lock_id.clone(),
                        );
                        let single = deposits.len() == 1;
                        (
                            sender,
                            Kinded::Provide {
                                pool: p.id.clone(),
                                deposits,
                                receiver,
                                lock: lock.clone(),
                                lock_id,
                                liq_slip: liq_slip.to_decimal(),
                                swap_slip: None,
                                single,
                            },
                            r,
                        )
                    }
                }
            }
            POp::Single { user, pool, asset, amt, force_odd, swap_slip, liq_slip, receiver, lock } => {
                let sender = self.user(*user);
                match choose_pref(self, *pool, &|p| p.n() == 2 && p.all_reserves_positive()) {
                    None => {
                        let r = self.w.provide(&sender, &no_pool, &[coin(1000, "uom")], None, None, None, None, None);
                        (sender, Kinded::Bad("single-asset provide to a non-existent pool".into()), r)
                    }
                    Some(p) => {
                        let i = *asset as usize % p.n();
                        let mut amount = amt.resolve(p.reserves[i].max(1)).min(10u128.pow(34));
                        match force_odd {
                            Some(true) => amount |= 1,
                            Some(false) => amount = (amount & !1u128).max(2),
                            None => {}
                        }
                        let deposits = vec![coin(amount, &p.denoms[i])];
                        let receiver = recv_addr(self, receiver);
                        let lock_id = self.resolve_lock_id(lock.as_ref(), &p.lp_denom);
                        let r = self.w.provide(
                            &sender,
                            &p.id,
                            &deposits,
                            liq_slip.to_decimal(),
                            swap_slip.to_decimal(),
                            receiver.clone(),
                            lock.as_ref().and_then(|l| l.dur()),
                            lock_id.clone(),
                        );
                        (
                            sender,
                            Kinded::Provide {
                                pool: p.id.clone(),
                                deposits,
                                receiver,
                                lock: lock.clone(),
                                lock_id,
                                liq_slip: liq_slip.to_decimal(),
                                swap_slip: swap_slip.to_decimal(),
                                single: true,
                            },
                            r,
                        )
                    }
                }
            }
            POp::Withdraw { user, pool, amt } => {
                let mut sender = self.user(*user);
                match choose_pref(self, *pool, &|p| p.funded()) {
                    None => {
                        let r = self.w.withdraw(&sender, &no_pool, 1000);
                        (sender, Kinded::Bad("withdraw from a non-existent pool".into()), r)
                    }
                    Some(p) => {
                        let holders: Vec<Addr> = (0..4u8).map(|i| self.user(i)).filter(|u| self.w.balance(u, &p.lp_denom) > 0).collect();
                        if !holders.is_empty() && *user % 8 != 7 {
                            sender = holders[*user as usize % holders.len()].clone();
                        }
                        let bal = self.w.balance(&sender, &p.lp_denom);
                        let lp = match amt {
                            WAmt::All => bal,
                            WAmt::Ppm(ppm) => Amt::Rel { ppm: *ppm }.resolve(bal).min(bal.max(1)),
                            WAmt::Units(k) => *k as u128,
                            WAmt::TooMuch => bal + 1,
                        };
                        let r = self.w.withdraw(&sender, &p.id, lp);
                        (sender, Kinded::Withdraw { pool: p.id.clone(), lp }, r)
                    }
                }
            }
            POp::Swap { user, pool, offer, ask, amt, slip, belief, receiver } => {
                let sender = self.user(*user);
                match choose_pref(self, *pool, &|p| p.all_reserves_positive()) {
                    None => {
                        let r = self.w.swap(&sender, &no_pool, coin(1000, "uom"), "uusd", None, None, None);
                        (sender, Kinded::Bad("swap on a non-existent pool".into()), r)
                    }
                    Some(p) => {
                        let oi = *offer as usize % p.n();
                        let ai = (oi + 1 + (*ask as usize % (p.n() - 1))) % p.n();
                        let reference = if p.reserves[oi] > 0 { p.reserves[oi] } else { 10u128.pow(p.decimals[oi] as u32) };
                        let amount = amt.resolve(reference).min(10u128.pow(34));
                        let offer_coin = coin(amount, &p.denoms[oi]);
                        let q = self.w.simulate(&p.id, offer_coin.clone(), &p.denoms[ai]);
                        let belief_dec = match (belief, &q) {
                            (Some(Belief::Zero), _) => Some(Decimal::zero()),
                            (Some(Belief::Huge { exp }), _) => Some(Decimal::new(Uint128::new(10u128.pow(18 + (*exp).min(19) as u32)))),
                            // nothing quoted: a belief around the quote does not exist; take a huge one
                            (Some(Belief::AroundQuote { .. }), Ok(s)) if s.return_amount.is_zero() => Some(Decimal::new(Uint128::new(10u128.pow(36)))),
                            (Some(Belief::AroundQuote { ppm }), Ok(s)) if !s.return_amount.is_zero() => {
                                // price = offer / return, scaled
                                let at = num_bigint::BigUint::from(amount) * num_bigint::BigUint::from(*ppm) * num_bigint::BigUint::from(10u64).pow(12)
                                    / num_bigint::BigUint::from(s.return_amount.u128());
                                u128::try_from(at).ok().map(|a| Decimal::new(Uint128::new(a)))
                            }
                            _ => None,
                        };
                        quote = Some(Quote::Swap(q));
                        let receiver = recv_addr(self, receiver);
                        let r = self.w.swap(&sender, &p.id, offer_coin.clone(), &p.denoms[ai], belief_dec, slip.to_decimal(), receiver.clone());
                        (
                            sender,
                            Kinded::Swap { pool: p.id.clone(), offer: offer_coin, ask: p.denoms[ai].clone(), receiver, slip: slip.to_decimal(), belief: belief_dec },
                            r,
                        )
                    }
                }
            }
            POp::Route { user, first_pool, first_offer, hops, simple, amt, min, slip, receiver } => {
                let sender = self.user(*user);
                match choose_pref(self, *first_pool, &|p| p.all_reserves_positive()) {
                    None => {
                        let r = self.w.pm_exec(
                            &sender,
                            &pm::ExecuteMsg::ExecuteSwapOperations {
                                operations: vec![pm::SwapOperation::MantraSwap {
                                    token_in_denom: "uom".into(),
                                    token_out_denom: "uusd".into(),
                                    pool_identifier: no_pool.clone(),
                                }],
                                minimum_receive: None,
                                receiver: None,
                                max_slippage: None,
                            },
                            &[coin(1000, "uom")],
                        );
                        (sender, Kinded::Bad("route through a non-existent pool".into()), r)
                    }
                    Some(p0) => {
                        let oi = *first_offer as usize % p0.n();
                        let mut route: Vec<Hop> = vec![];
                        let mut used: Vec<String> = vec![];
                        let ai = (oi + 1 + (hops.first().map(|h| h.1).unwrap_or(0) as usize % (p0.n() - 1))) % p0.n();
                        route.push(Hop { pool: p0.id.clone(), denom_in: p0.denoms[oi].clone(), denom_out: p0.denoms[ai].clone() });
                        used.push(p0.id.clone());
                        let mut cur = p0.denoms[ai].clone();
                        for (pp, ap) in hops.iter() {
                            let mut cands: Vec<&PoolView> = pre
                                .pools
                                .values()
                                .filter(|p| p.idx(&cur).is_some() && (!*simple || !used.contains(&p.id)))
                                .collect();
                            if cands.iter().any(|p| p.all_reserves_positive()) && *pp % 10 != 9 {
                                cands.retain(|p| p.all_reserves_positive());
                            }
                            if cands.is_empty() {
                                break;
                            }
                            let p = cands[pick(*pp, cands.len())];
                            let ii = p.idx(&cur).unwrap();
                            let ai = (ii + 1 + (*ap as usize % (p.n() - 1))) % p.n();
                            route.push(Hop { pool: p.id.clone(), denom_in: cur.clone(), denom_out: p.denoms[ai].clone() });
                            used.push(p.id.clone());
                            cur = p.denoms[ai].clone();
                        }
                        let is_simple = {
                            let mut u = used.clone();
                            u.sort();
                            u.dedup();
                            u.len() == used.len()
                        };
                        let reference = if p0.reserves[oi] > 0 { p0.reserves[oi] } else { 10u128.pow(p0.decimals[oi] as u32) };
                        let amount = amt.resolve(reference).min(10u128.pow(34));
                        let operations: Vec<pm::SwapOperation> = route
                            .iter()
                            .map(|h| pm::SwapOperation::MantraSwap {
                                token_in_denom: h.denom_in.clone(),
                                token_out_denom: h.denom_out.clone(),
                                pool_identifier: h.pool.clone(),
                            })
                            .collect();
                        let q: Result<pm::SimulateSwapOperationsResponse, String> = self.w.query(
                            &pm_addr,
                            &pm::QueryMsg::SimulateSwapOperations { offer_amount: Uint128::new(amount), operations: operations.clone() },
                        );
                        let min_v = match (min, &q) {
                            (MinSpec::None, _) => None,
                            (MinSpec::Abs(v), _) => Some(*v as u128),
                            (MinSpec::Quote(d), Ok(s)) => Some((s.return_amount.u128() as i128 + *d as i128).max(0) as u128),
                            (MinSpec::Quote(_), Err(_)) => None,
                        };
                        quote = Some(Quote::Route(q));
                        let receiver = recv_addr(self, receiver);
                        let offer_coin = coin(amount, &route[0].denom_in);
                        let r = self.w.pm_exec(
                            &sender,
                            &pm::ExecuteMsg::ExecuteSwapOperations {
                                operations,
                                minimum_receive: min_v.map(Uint128::new),
                                receiver: receiver.clone(),
                                max_slippage: slip.to_decimal(),
                            },
                            &[offer_coin.clone()],
                        );
                        (sender, Kinded::Route { hops: route, offer: offer_coin, receiver, min: min_v, slip: slip.to_decimal(), simple: is_simple }, r)
                    }
                }
            }
            POp::Donate { lp_of, denom, amt } => {
                // tokens sent straight to the contract, outside any pool operation
                let (from, c) = match lp_of.and_then(|p| self.pick_pool(&pre, p).cloned()) {
                    Some(p) => {
                        // an LP holder donates LP tokens
                        let holder = (0..4u8).map(|i| self.user(i)).find(|u| self.w.balance(u, &p.lp_denom) > 0);
                        match holder {
                            Some(h) => {
                                let bal = self.w.balance(&h, &p.lp_denom);
                                (h, coin(amt.resolve(bal).min(bal).max(1), &p.lp_denom))
                            }
                            None => (self.w.outsider.clone(), coin(amt.resolve(1_000_000).min(10u128.pow(30)), BASE_DENOMS[*denom as usize % 6])),
                        }
                    }
                    None => (self.w.outsider.clone(), coin(amt.resolve(1_000_000).min(10u128.pow(30)), BASE_DENOMS[*denom as usize % 6])),
                };
                let r = self.w.bank_send(&from, &pm_addr, &[c.clone()]);
                if r.is_ok() {
                    *self.donated.entry(c.denom.clone()).or_insert(0) += c.amount.u128();
                }
                (from, Kinded::Donate { coin: c }, r)
            }
            POp::Toggle { pool, swaps, deposits, withdrawals } => {
                let id = self.pick_pool(&pre, *pool).map(|p| p.id.clone()).unwrap_or(no_pool.clone());
                let r = self.w.pm_exec(
                    &owner,
                    &pm::ExecuteMsg::UpdateConfig {
                        fee_collector_addr: None,
                        farm_manager_addr: None,
                        pool_creation_fee: None,
                        feature_toggle: Some(pm::FeatureToggle {
                            pool_identifier: id.clone(),
                            withdrawals_enabled: *withdrawals,
                            deposits_enabled: *deposits,
                            swaps_enabled: *swaps,
                        }),
                    },
                    &[],
                );
                (owner.clone(), Kinded::Toggle { pool: id }, r)
            }
            POp::SetFeeCollector { to_user } => {
                let to = match to_user {
                    Some(u) => self.user(*u).to_string(),
                    None => self.w.fee_collector.to_string(),
                };
                let r = self.w.pm_exec(
                    &owner,
                    &pm::ExecuteMsg::UpdateConfig { fee_collector_addr: Some(to), farm_manager_addr: None, pool_creation_fee: None, feature_toggle: None },
                    &[],
                );
                (owner.clone(), Kinded::Config, r)
            }
            POp::SetCreationFee { amount, denom } => {
                let c = coin(*amount as u128, BASE_DENOMS[*denom as usize % 6]);
                let r = self.w.pm_exec(
                    &owner,
                    &pm::ExecuteMsg::UpdateConfig { fee_collector_addr: None, farm_manager_addr: None, pool_creation_fee: Some(c.clone()), feature_toggle: None },
                    &[],
                );
                if r.is_ok() {
                    self.current_creation_fee = c;
                }
                (owner.clone(), Kinded::Config, r)
            }
            POp::Advance { secs } => {
                self.w.advance(*secs as u64);
                (owner.clone(), Kinded::Advance, Ok(AppResponse::default()))
            }
            POp::Bad(b) => self.bad(b, &pre),
            POp::SwapExact { user, pool_id, offer_denom, ask_denom, amount, huge_belief } => {
                let sender = self.user(*user);
                let offer_coin = coin(*amount, offer_denom);
                let q = self.w.simulate(pool_id, offer_coin.clone(), ask_denom);
                quote = Some(Quote::Swap(q));
                let slip = Some(Decimal::percent(50));
                let belief = if *huge_belief { Some(Decimal::new(Uint128::new(10u128.pow(36)))) } else { None };
                let r = self.w.swap(&sender, pool_id, offer_coin.clone(), ask_denom, belief, slip, None);
                (sender, Kinded::Swap { pool: pool_id.clone(), offer: offer_coin, ask: ask_denom.clone(), receiver: None, slip, belief }, r)
            }
            POp::RoundTrip { .. } => (owner.clone(), Kinded::Advance, Ok(AppResponse::default())),
            POp::RouteSameDenomHop { user, pool, asset, amt, slip, lead_in } => {
                let sender = self.user(*user);
                match choose_pref(self, *pool, &|p| p.all_reserves_positive()) {
                    None => (sender, Kinded::Bad("same-denom hop without pools".into()), Err("no pool".into())),
                    Some(p) => {
                        let i = *asset as usize % p.n();
                        let d = p.denoms[i].clone();
                        let mut route = vec![];
                        let mut first_denom = d.clone();
                        if *lead_in {
                            // an ordinary hop into d first, then d -> d on the same pool
                            let j = (i + 1) % p.n();
                            first_denom = p.denoms[j].clone();
                            route.push(Hop { pool: p.id.clone(), denom_in: p.denoms[j].clone(), denom_out: d.clone() });
                        }
                        route.push(Hop { pool: p.id.clone(), denom_in: d.clone(), denom_out: d.clone() });
                        let fi = p.idx(&first_denom).unwrap();
                        let amount = amt.resolve(p.reserves[fi].max(1)).min(10u128.pow(34));
                        let operations: Vec<pm::SwapOperation> = route
                            .iter()
                            .map(|h| pm::SwapOperation::MantraSwap { token_in_denom: h.denom_in.clone(), token_out_denom: h.denom_out.clone(), pool_identifier: h.pool.clone() })
                            .collect();
                        let offer_coin = coin(amount, &first_denom);
                        let r = self.w.pm_exec(
                            &sender,
                            &pm::ExecuteMsg::ExecuteSwapOperations { operations, minimum_receive: None, receiver: None, max_slippage: slip.to_decimal() },
                            &[offer_coin.clone()],
                        );
                        (sender, Kinded::Route { hops: route, offer: offer_coin, receiver: None, min: None, slip: slip.to_decimal(), simple: false }, r)
                    }
                }
            }
        };

        self.last_obs = None;
        let post = self.obs();
        // a successful odd single-asset deposit leaves one indivisible unit
        if let (Kinded::Provide { deposits, single: true, .. }, true) = (&kind, result.is_ok()) {
            if deposits.len() == 1 && deposits[0].amount.u128() % 2 == 1 {
                *self.odd_units.entry(deposits[0].denom.clone()).or_insert(0) += 1;
            }
        }
        Step {
            idx,
            sender_label: label_of(&self.w, sender.as_str()),
            sender: sender.to_string(),
            kind,
            pre,
            post,
            result,
            quote,
            labels: self.w.accounts().into_iter().map(|(l, a)| (a.to_string(), l)).collect(),
        }
    }

    fn bad(&mut self, b: &Bad, pre: &Obs) -> (Addr, Kinded, Result<AppResponse, String>) {
        let owner = self.w.owner.clone();
        let any_pool = |s: &Sim, p: u16| s.pick_pool(pre, p).cloned();
        match b {
            Bad::SwapSameDenom { user, pool } => {
                let sender = self.user(*user);
                let (id, d) = any_pool(self, *pool).map(|p| (p.id.clone(), p.denoms[0].clone())).unwrap_or(("o.none".into(), "uom".into()));
                let r = self.w.swap(&sender, &id, coin(1000, &d), &d, None, None, None);
                (sender, Kinded::Bad("swap with offer == ask".into()), r)
            }
            Bad::SwapForeignDenom { user, pool, denom } => {
                let sender = self.user(*user);
                let p = any_pool(self, *pool);
                let foreign = BASE_DENOMS.iter().cycle().skip(*denom as usize).take(6).find(|d| p.as_ref().map(|p| p.idx(d).is_none()).unwrap_or(true)).unwrap_or(&"uom").to_string();
                let (id, ask) = p.map(|p| (p.id.clone(), p.denoms[0].clone())).unwrap_or(("o.none".into(), "uusd".into()));
                let r = self.w.swap(&sender, &id, coin(1000, &foreign), &ask, None, None, None);
                (sender, Kinded::Bad("swap offering a denom that is not in the pool".into()), r)
            }
            Bad::SwapTwoCoins { user, pool } => {
                let sender = self.user(*user);
                let (id, a, bb) = any_pool(self, *pool).map(|p| (p.id.clone(), p.denoms[0].clone(), p.denoms[1].clone())).unwrap_or(("o.none".into(), "uom".into(), "uusd".into()));
                let mut funds = vec![coin(1000, &a), coin(1000, &bb)];
                funds.sort_by(|x, y| x.denom.cmp(&y.denom));
                let r = self.w.pm_exec(&sender, &pm::ExecuteMsg::Swap { ask_asset_denom: bb, belief_price: None, max_slippage: None, receiver: None, pool_identifier: id }, &funds);
                (sender, Kinded::Bad("swap with two coins".into()), r)
            }
            Bad::SwapNoFunds { user, pool } => {
                let sender = self.user(*user);
                let (id, bb) = any_pool(self, *pool).map(|p| (p.id.clone(), p.denoms[1].clone())).unwrap_or(("o.none".into(), "uusd".into()));
                let r = self.w.pm_exec(&sender, &pm::ExecuteMsg::Swap { ask_asset_denom: bb, belief_price: None, max_slippage: None, receiver: None, pool_identifier: id }, &[]);
                (sender, Kinded::Bad("swap without funds".into()), r)
            }
            Bad::WithdrawWrongDenom { user, pool } => {
                let sender = self.user(*user);
                let (id, d) = any_pool(self, *pool).map(|p| (p.id.clone(), p.denoms[0].clone())).unwrap_or(("o.none".into(), "uom".into()));
                let r = self.w.pm_exec(&sender, &pm::ExecuteMsg::WithdrawLiquidity { pool_identifier: id }, &[coin(1000, d)]);
                (sender, Kinded::Bad("withdraw paying with a pool asset instead of the LP token".into()), r)
            }
            Bad::WithdrawUnknownPool { user } => {
                let sender = self.user(*user);
                let r = self.w.pm_exec(&sender, &pm::ExecuteMsg::WithdrawLiquidity { pool_identifier: "o.doesnotexist".into() }, &[coin(1000, "uom")]);
                (sender, Kinded::Bad("withdraw from an unknown pool".into()), r)
            }
            Bad::ProvideForeignDenom { user, pool, denom } => {
                let sender = self.user(*user);
                let p = any_pool(self, *pool);
                let foreign = BASE_DENOMS.iter().cycle().skip(*denom as usize).take(6).find(|d| p.as_ref().map(|p| p.idx(d).is_none()).unwrap_or(true)).unwrap_or(&"uom").to_string();
                let (id, a) = p.map(|p| (p.id.clone(), p.denoms[0].clone())).unwrap_or(("o.none".into(), "uusd".into()));
                let mut funds = vec![coin(5000, &a)];
                if foreign != a {
                    funds.push(coin(5000, &foreign));
                }
                let r = self.w.provide(&sender, &id, &funds, None, None, None, None, None);
                (sender, Kinded::Bad("provide including a denom that is not in the pool".into()), r)
            }
            Bad::ProvideNothing { user, pool } => {
                let sender = self.user(*user);
                let id = any_pool(self, *pool).map(|p| p.id.clone()).unwrap_or("o.none".into());
                let r = self.w.provide(&sender, &id, &[], None, None, None, None, None);
                (sender, Kinded::Bad("provide without funds".into()), r)
            }
            Bad::RouteEmpty { user } => {
                let sender = self.user(*user);
                let r = self.w.pm_exec(&sender, &pm::ExecuteMsg::ExecuteSwapOperations { operations: vec![], minimum_receive: None, receiver: None, max_slippage: None }, &[coin(1000, "uom")]);
                (sender, Kinded::Bad("route without operations".into()), r)
            }
            Bad::RouteNonConsecutive { user, pool } => {
                let sender = self.user(*user);
                let p = any_pool(self, *pool);
                let (id, a, bb) = p.map(|p| (p.id.clone(), p.denoms[0].clone(), p.denoms[1].clone())).unwrap_or(("o.none".into(), "uom".into(), "uusd".into()));
                let ops = vec![
                    pm::SwapOperation::MantraSwap { token_in_denom: a.clone(), token_out_denom: bb.clone(), pool_identifier: id.clone() },
                    pm::SwapOperation::MantraSwap { token_in_denom: a.clone(), token_out_denom: bb, pool_identifier: id },
                ];
                let r = self.w.pm_exec(&sender, &pm::ExecuteMsg::ExecuteSwapOperations { operations: ops, minimum_receive: None, receiver: None, max_slippage: None }, &[coin(1000, a)]);
                (sender, Kinded::Bad("route whose hops are not consecutive".into()), r)
            }
            Bad::ConfigByStranger { user } => {
                let sender = self.user(*user);
                let r = self.w.pm_exec(&sender, &pm::ExecuteMsg::UpdateConfig { fee_collector_addr: Some(sender.to_string()), farm_manager_addr: None, pool_creation_fee: None, feature_toggle: None }, &[]);
                (sender, Kinded::Bad("UpdateConfig by a non-owner".into()), r)
            }
            Bad::ConfigWithFunds => {
                let r = self.w.pm_exec(&owner, &pm::ExecuteMsg::UpdateConfig { fee_collector_addr: None, farm_manager_addr: None, pool_creation_fee: None, feature_toggle: None }, &[coin(5, "uom")]);
                (owner, Kinded::Bad("UpdateConfig with funds".into()), r)
            }
            Bad::ToggleUnknownPool => {
                let r = self.w.pm_exec(
                    &owner,
                    &pm::ExecuteMsg::UpdateConfig {
                        fee_collector_addr: None,
                        farm_manager_addr: None,
                        pool_creation_fee: None,
                        feature_toggle: Some(pm::FeatureToggle { pool_identifier: "o.doesnotexist".into(), withdrawals_enabled: Some(false), deposits_enabled: None, swaps_enabled: None }),
                    },
                    &[],
                );
                (owner, Kinded::Bad("feature toggle for an unknown pool".into()), r)
            }
            Bad::CreateUnderpaid { user } | Bad::CreateOverpaid { user } => {
                let sender = self.user(*user);
                let mut funds = self.w.creation_funds(&self.current_creation_fee);
                let over = matches!(b, Bad::CreateOverpaid { .. });
                if funds.is_empty() {
                    if over {
                        funds.push(coin(1, "uom"));
                    } else {
                        // nothing to underpay: send an unrelated coin instead
                        funds.push(coin(1, "ubtc"));
                    }
                } else if over {
                    funds[0].amount += Uint128::one();
                } else {
                    funds[0].amount -= Uint128::one();
                    funds.retain(|c| !c.amount.is_zero());
                }
                let r = self.w.pm_exec(
                    &sender,
                    &pm::ExecuteMsg::CreatePool {
                        asset_denoms: vec!["uom".into(), "uusd".into()],
                        asset_decimals: vec![6, 6],
                        pool_fees: FeeSpec { protocol: 0, swap: 0, burn: 0, extra: vec![] }.to_pool_fee(),
                        pool_type: pm::PoolType::ConstantProduct,
                        pool_identifier: None,
                    },
                    &funds,
                );
                (sender, Kinded::Bad(if over { "create pool overpaying the fees".into() } else { "create pool underpaying the fees".into() }), r)
            }
            Bad::CreateOddFunds { user, k } => {
                let sender = self.user(*user);
                let cf = self.current_creation_fee.clone();
                let tf = self.w.cfg.tf_fee_coins();
                let exact = self.w.creation_funds(&cf);
                let mut funds: Vec<Coin> = match k % 8 {
                    0 => tf.iter().map(|c| coin(c.amount.u128() * 2, &c.denom)).collect(),
                    1 => vec![coin(cf.amount.u128() * 2, &cf.denom)],
                    2 => vec![cf.clone()],
                    3 => tf.clone(),
                    4 => exact.iter().map(|c| coin(c.amount.u128() * 2, &c.denom)).collect(),
                    5 => exact.iter().map(|c| coin(c.amount.u128() / 2, &c.denom)).collect(),
                    6 => exact.iter().skip(1).cloned().collect(),
                    _ => exact.iter().rev().skip(1).cloned().collect(),
                };
                funds.retain(|c| !c.amount.is_zero());
                funds.sort_by(|a, b| a.denom.cmp(&b.denom));
                funds.dedup_by(|a, b| a.denom == b.denom);
                let same = {
                    let mut a = funds.clone();
                    a.sort_by(|x, y| x.denom.cmp(&y.denom));
                    a == exact
                };
                let r = self.w.pm_exec(
                    &sender,
                    &pm::ExecuteMsg::CreatePool {
                        asset_denoms: vec!["uweth".into(), "ubtc".into()],
                        asset_decimals: vec![18, 8],
                        pool_fees: FeeSpec { protocol: 0, swap: 0, burn: 0, extra: vec![] }.to_pool_fee(),
                        pool_type: pm::PoolType::ConstantProduct,
                        pool_identifier: None,
                    },
                    &funds,
                );
                if same {
                    // by coincidence the combination is the exact payment: an ordinary creation
                    (sender, Kinded::Config, r)
                } else {
                    (sender, Kinded::Bad("create pool paying another combination of the fee amounts".into()), r)
                }
            }
            Bad::OwnershipByStranger { user } => {
                let sender = self.user(*user);
                let r = self.w.pm_exec(&sender, &pm::ExecuteMsg::UpdateOwnership(cw_ownable::Action::TransferOwnership { new_owner: sender.to_string(), expiry: None }), &[]);
                (sender, Kinded::Bad("ownership transfer by a non-owner".into()), r)
            }
        }
    }
}

/// "123uom,456factory/…/x.LP" -> [(denom, amount)]
pub fn parse_reserves(s: &str) -> Vec<(String, u128)> {
    s.split(',')
        .filter_map(|c| parse_coin(c.trim()))
        .collect()
}
pub fn parse_coin(s: &str) -> Option<(String, u128)> {
    let digits: String = s.chars().take_while(|c| c.is_ascii_digit()).collect();
    if digits.is_empty() {
        return None;
    }
    let amount = digits.parse().ok()?;
    Some((s[digits.len()..].to_string(), amount))
}

pub fn attr<'a>(attrs: &'a [(String, String)], k: &str) -> Option<&'a str> {
    attrs.iter().find(|(a, _)| a == k).map(|(_, v)| v.as_str())
}
pub fn attr_u128(attrs: &[(String, String)], k: &str) -> Option<u128> {
    attr(attrs, k).and_then(|v| v.parse().ok())
}

pub fn kind_label(p: &PoolView) -> &'static str {
    match p.kind {
        Kind::Cp => "cp",
        Kind::Ss { .. } => "ss",
    }
}
