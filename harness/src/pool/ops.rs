//! Operation alphabet and generators of the pool-history engine (engine P).
use proptest::prelude::*;
use serde::{Deserialize, Serialize};

pub const BASE_DENOMS: [&str; 6] = ["uom", "uusd", "uusdc", "uusdt", "uweth", "ubtc"];

/// An amount, resolved against the state at execution time.
#[derive(Debug, Clone, Serialize, Deserialize, PartialEq)]
pub enum Amt {
    /// mant · 10^exp smallest units
    Abs { mant: u32, exp: u8 },
    /// reference (reserve / balance) · ppm / 10^6
    Rel { ppm: u32 },
    /// a handful of smallest units
    Units(u8),
}

impl Amt {
    pub fn resolve(&self, reference: u128) -> u128 {
        match self {
            Amt::Abs { mant, exp } => (*mant as u128).saturating_mul(10u128.pow((*exp).min(30) as u32)),
            Amt::Rel { ppm } => {
                let v = num_bigint::BigUint::from(reference) * num_bigint::BigUint::from(*ppm)
                    / num_bigint::BigUint::from(1_000_000u32);
                u128::try_from(v).unwrap_or(u128::MAX).max(1)
            }
            Amt::Units(k) => *k as u128,
        }
    }
}

pub fn amt_strat() -> impl Strategy<Value = Amt> {
    prop_oneof![
        8 => prop_oneof![
            6 => 1u32..50_000,             // small trades (up to 5% of the reference)
            3 => 50_000u32..400_000,
            1 => 400_000u32..1_000_000,    // up to 100% of the reference
            1 => 1_000_000u32..5_000_000,  // several times the reference
            1 => Just(1_000_000u32),
        ].prop_map(|ppm| Amt::Rel { ppm }),
        1 => (1u32..1_000_000, 0u8..24).prop_map(|(mant, exp)| Amt::Abs { mant, exp }),
        1 => (1u8..8).prop_map(Amt::Units),
    ]
}

/// fee shares in units of 10^-9 (Decimal atomics / 10^9)
#[derive(Debug, Clone, Serialize, Deserialize, PartialEq)]
pub struct FeeSpec {
    pub protocol: u32,
    pub swap: u32,
    pub burn: u32,
    pub extra: Vec<u32>,
}

impl FeeSpec {
    pub fn total(&self) -> u64 {
        self.protocol as u64 + self.swap as u64 + self.burn as u64 + self.extra.iter().map(|x| *x as u64).sum::<u64>()
    }
    pub fn to_pool_fee(&self) -> mantra_dex_std::fee::PoolFee {
        use cosmwasm_std::{Decimal, Uint128};
        use mantra_dex_std::fee::Fee;
        let f = |v: u32| Fee { share: Decimal::new(Uint128::new(v as u128 * 1_000_000_000)) };
        mantra_dex_std::fee::PoolFee {
            protocol_fee: f(self.protocol),
            swap_fee: f(self.swap),
            burn_fee: f(self.burn),
            extra_fees: self.extra.iter().map(|e| f(*e)).collect(),
        }
    }
}

/// 20% in 10^-9 units
pub const FEE_CAP: u64 = 200_000_000;

fn one_fee() -> impl Strategy<Value = u32> {
    prop_oneof![
        2 => Just(0u32),
        3 => (0u32..100).prop_map(|bp| bp * 100_000),       // whole basis points up to 1%
        2 => 0u32..50_000_000,                               // anything up to 5%
        1 => Just(3_333_333u32),                             // 1/3 % (non-terminating)
    ]
}
fn small_fee() -> impl Strategy<Value = u32> {
    prop_oneof![
        2 => Just(0u32),
        4 => (0u32..30).prop_map(|bp| bp * 100_000),        // up to 0.3%
        1 => 0u32..3_000_000,
        1 => Just(333_333u32),
    ]
}

/// valid fee sets (total <= 20%), from all-zero to the cap, 0-3 extra fees
pub fn valid_fees() -> impl Strategy<Value = FeeSpec> {
    prop_oneof![
        1 => Just(FeeSpec { protocol: 0, swap: 0, burn: 0, extra: vec![] }),
        8 => (small_fee(), small_fee(), small_fee(), proptest::collection::vec(small_fee(), 0..3)).prop_map(|(p, s, b, extra)| {
            FeeSpec { protocol: p, swap: s, burn: b, extra }
        }),
        4 => (one_fee(), one_fee(), one_fee(), proptest::collection::vec(one_fee(), 0..4)).prop_map(|(p, s, b, mut extra)| {
            let mut f = FeeSpec { protocol: p, swap: s, burn: b, extra: vec![] };
            for e in extra.drain(..) {
                if f.total() + e as u64 <= FEE_CAP { f.extra.push(e); }
            }
            f
        }),
        1 => (0u32..=200_000_000u32, 0u32..=200_000_000u32, any::<bool>()).prop_map(|(a, b, with_extra)| {
            // exactly at the 20% cap, split over protocol/swap/burn (+ one extra)
            let (lo, hi) = (a.min(b), a.max(b));
            if with_extra {
                FeeSpec { protocol: lo / 2, swap: hi - lo, burn: 200_000_000 - hi, extra: vec![lo - lo / 2] }
            } else {
                FeeSpec { protocol: lo, swap: hi - lo, burn: 200_000_000 - hi, extra: vec![] }
            }
        }),
    ]
}

#[derive(Debug, Clone, Serialize, Deserialize, PartialEq)]
pub struct CreateSpec {
    pub user: u8,
    /// None = constant product
    pub amp: Option<u64>,
    /// asset indices: 0..6 base denoms, 6.. = LP denom of an existing pool
    pub assets: Vec<u8>,
    pub fees: FeeSpec,
    pub explicit_id: Option<u8>,
}

pub fn amp_strat() -> impl Strategy<Value = u64> {
    prop_oneof![
        2 => 1u64..=10,
        4 => 10u64..=1000,
        2 => 1000u64..=1_000_000,
        1 => Just(85u64),
    ]
}

pub fn create_strat() -> impl Strategy<Value = CreateSpec> {
    (
        0u8..4,
        proptest::option::weighted(0.55, amp_strat()),
        proptest::collection::vec(prop_oneof![30 => 0u8..6, 1 => 6u8..10], 2..=4),
        valid_fees(),
        proptest::option::weighted(0.3, prop_oneof![6 => 0u8..12, 1 => 12u8..18]),
        any::<u8>(),
    )
        .prop_map(|(user, amp, mut assets, fees, explicit_id, rot)| {
            // make the assets distinct by construction (creation with duplicates is C16's domain)
            let mut seen = vec![];
            for a in assets.iter_mut() {
                let mut v = *a;
                let mut guard = 0;
                while seen.contains(&v) && guard < 12 {
                    v = if v < 6 { (v + 1 + rot % 5) % 6 } else { 6 + (v - 6 + 1) % 4 };
                    guard += 1;
                }
                *a = v;
                seen.push(v);
            }
            if amp.is_none() {
                assets.truncate(2);
            }
            CreateSpec { user, amp, assets, fees, explicit_id }
        })
}

#[derive(Debug, Clone, Serialize, Deserialize, PartialEq)]
pub enum Slip {
    Default,
    /// tolerance in 10^-4 (may exceed 10000 = 100%: must be refused or capped as documented)
    Bp(u16),
}
impl Slip {
    pub fn to_decimal(&self) -> Option<cosmwasm_std::Decimal> {
        match self {
            Slip::Default => None,
            Slip::Bp(b) => Some(cosmwasm_std::Decimal::from_ratio(*b as u128, 10_000u128)),
        }
    }
}
pub fn slip_strat() -> impl Strategy<Value = Slip> {
    prop_oneof![
        3 => Just(Slip::Default),
        8 => Just(Slip::Bp(5000)),
        1 => Just(Slip::Bp(10000)),
        2 => (0u16..6000).prop_map(Slip::Bp),
        1 => (10001u16..20000).prop_map(Slip::Bp),
    ]
}

#[derive(Debug, Clone, Serialize, Deserialize, PartialEq)]
pub struct LockSpec {
    /// unlocking duration in seconds (may be outside the allowed range)
    pub duration: u64,
    /// None: no identifier; Some(k): explicit identifier "lk<k>" (re-used identifiers expand)
    pub id: Option<u8>,
    /// name an EXISTING position by its full identifier instead (anybody's: the sender's own must be
    /// expanded, somebody else's must be refused)
    #[serde(default)]
    pub existing: Option<u16>,
    /// send the identifier WITHOUT an unlocking duration: that is no lock at all, the identifier
    /// must be ignored (only set by C14's probes)
    #[serde(default)]
    pub no_duration: bool,
}
impl LockSpec {
    pub fn dur(&self) -> Option<u64> {
        if self.no_duration {
            None
        } else {
            Some(self.duration)
        }
    }
}
pub fn lock_strat() -> impl Strategy<Value = LockSpec> {
    (
        prop_oneof![6 => 86_400u64..=31_556_926, 1 => Just(86_400u64), 1 => Just(31_556_926u64), 1 => 0u64..86_400],
        proptest::option::weighted(0.6, 0u8..4),
        proptest::option::weighted(0.3, any::<u16>()),
    )
        .prop_map(|(duration, id, existing)| LockSpec { duration, id, existing, no_duration: false })
}

#[derive(Debug, Clone, Serialize, Deserialize, PartialEq)]
pub enum WAmt {
    All,
    /// share of the sender's LP balance
    Ppm(u32),
    Units(u8),
    /// more than the sender owns
    TooMuch,
}

#[derive(Debug, Clone, Serialize, Deserialize, PartialEq)]
pub enum MinSpec {
    None,
    /// quoted final amount + delta (−1, 0, +1, …)
    Quote(i8),
    Abs(u64),
}

#[derive(Debug, Clone, Serialize, Deserialize, PartialEq)]
pub enum Belief {
    /// belief price = (offer/return quoted) scaled by ppm/10^6
    AroundQuote { ppm: u32 },
    Zero,
    /// a belief price so high that any return satisfies it (10^exp offer units per ask unit): lets
    /// degenerate swaps - those that deliver nothing - through the protection
    Huge { exp: u8 },
}

#[derive(Debug, Clone, Serialize, Deserialize, PartialEq)]
pub enum Bad {
    SwapSameDenom { user: u8, pool: u16 },
    SwapForeignDenom { user: u8, pool: u16, denom: u8 },
    SwapTwoCoins { user: u8, pool: u16 },
    SwapNoFunds { user: u8, pool: u16 },
    WithdrawWrongDenom { user: u8, pool: u16 },
    WithdrawUnknownPool { user: u8 },
    ProvideForeignDenom { user: u8, pool: u16, denom: u8 },
    ProvideNothing { user: u8, pool: u16 },
    RouteEmpty { user: u8 },
    RouteNonConsecutive { user: u8, pool: u16 },
    ConfigByStranger { user: u8 },
    ConfigWithFunds,
    ToggleUnknownPool,
    CreateUnderpaid { user: u8 },
    CreateOverpaid { user: u8 },
    /// creation paying some other combination of the fee amounts (k selects it)
    CreateOddFunds { user: u8, k: u8 },
    OwnershipByStranger { user: u8 },
}

#[derive(Debug, Clone, Serialize, Deserialize, PartialEq)]
pub enum POp {
    Create(CreateSpec),
    Provide {
        user: u8,
        pool: u16,
        amts: [Amt; 4],
        /// which assets to include (bit i); 0b1111 = all
        mask: u8,
        /// first deposit: notional pool size 10^init_exp whole tokens per asset
        init_exp: i8,
        liq_slip: Slip,
        receiver: Option<u8>,
        lock: Option<LockSpec>,
    },
    Single {
        user: u8,
        pool: u16,
        asset: u8,
        amt: Amt,
        force_odd: Option<bool>,
        swap_slip: Slip,
        liq_slip: Slip,
        receiver: Option<u8>,
        lock: Option<LockSpec>,
    },
    Withdraw { user: u8, pool: u16, amt: WAmt },
    Swap {
        user: u8,
        pool: u16,
        offer: u8,
        ask: u8,
        amt: Amt,
        slip: Slip,
        belief: Option<Belief>,
        receiver: Option<u8>,
    },
    Route {
        user: u8,
        first_pool: u16,
        first_offer: u8,
        /// (pool pick, ask pick) per hop
        hops: Vec<(u16, u8)>,
        /// every pool at most once
        simple: bool,
        amt: Amt,
        min: MinSpec,
        slip: Slip,
        receiver: Option<u8>,
    },
    Donate { lp_of: Option<u16>, denom: u8, amt: Amt },
    Toggle { pool: u16, swaps: Option<bool>, deposits: Option<bool>, withdrawals: Option<bool> },
    SetFeeCollector { to_user: Option<u8> },
    SetCreationFee { amount: u32, denom: u8 },
    Advance { secs: u32 },
    Bad(Bad),
    /// a route containing a hop whose input and output denom are the same (must be refused; if a
    /// contract accepts it, it is judged like any other hop)
    RouteSameDenomHop { user: u8, pool: u16, asset: u8, amt: Amt, slip: Slip, lead_in: bool },
    /// a trader swaps an amount out and back through 1-3 pools (only the C03 engine generates it)
    RoundTrip { user: u8, pool: u16, offer: u8, path: Vec<(u16, u8)>, ppm: u32, close: u16 },
    /// fully resolved direct swap (used internally by RoundTrip; never generated)
    SwapExact {
        user: u8,
        pool_id: String,
        offer_denom: String,
        ask_denom: String,
        amount: u128,
        /// with a belief price nothing can fall short of (lets a swap that delivers nothing through)
        #[serde(default)]
        huge_belief: bool,
    },
}

fn user() -> impl Strategy<Value = u8> {
    0u8..4
}
fn recv() -> impl Strategy<Value = Option<u8>> {
    proptest::option::weighted(0.3, 0u8..5)
}

pub fn bad_strat() -> impl Strategy<Value = Bad> {
    prop_oneof![
        (user(), any::<u16>()).prop_map(|(user, pool)| Bad::SwapSameDenom { user, pool }),
        (user(), any::<u16>(), 0u8..6).prop_map(|(user, pool, denom)| Bad::SwapForeignDenom { user, pool, denom }),
        (user(), any::<u16>()).prop_map(|(user, pool)| Bad::SwapTwoCoins { user, pool }),
        (user(), any::<u16>()).prop_map(|(user, pool)| Bad::SwapNoFunds { user, pool }),
        (user(), any::<u16>()).prop_map(|(user, pool)| Bad::WithdrawWrongDenom { user, pool }),
        user().prop_map(|user| Bad::WithdrawUnknownPool { user }),
        (user(), any::<u16>(), 0u8..6).prop_map(|(user, pool, denom)| Bad::ProvideForeignDenom { user, pool, denom }),
        (user(), any::<u16>()).prop_map(|(user, pool)| Bad::ProvideNothing { user, pool }),
        user().prop_map(|user| Bad::RouteEmpty { user }),
        (user(), any::<u16>()).prop_map(|(user, pool)| Bad::RouteNonConsecutive { user, pool }),
        user().prop_map(|user| Bad::ConfigByStranger { user }),
        Just(Bad::ConfigWithFunds),
        Just(Bad::ToggleUnknownPool),
        user().prop_map(|user| Bad::CreateUnderpaid { user }),
        user().prop_map(|user| Bad::CreateOverpaid { user }),
        (user(), 0u8..8).prop_map(|(user, k)| Bad::CreateOddFunds { user, k }),
        (user(), 0u8..8).prop_map(|(user, k)| Bad::CreateOddFunds { user, k }),
        user().prop_map(|user| Bad::OwnershipByStranger { user }),
    ]
}

pub fn provide_strat() -> impl Strategy<Value = POp> {
    (
        user(),
        any::<u16>(),
        prop_oneof![
            // proportional: the same ratio for every asset
            3 => amt_strat().prop_map(|a| [a.clone(), a.clone(), a.clone(), a]),
            // independent per asset
            2 => [amt_strat(), amt_strat(), amt_strat(), amt_strat()],
        ],
        prop_oneof![8 => Just(0b1111u8), 2 => 1u8..15],
        prop_oneof![6 => 0i8..=9, 1 => -6i8..0, 1 => 9i8..=12],
        prop_oneof![6 => Just(Slip::Default), 2 => slip_strat()],
        recv(),
        proptest::option::weighted(0.15, lock_strat()),
    )
        .prop_map(|(user, pool, amts, mask, init_exp, liq_slip, receiver, lock)| POp::Provide {
            user, pool, amts, mask, init_exp, liq_slip, receiver, lock,
        })
}

pub fn single_strat() -> impl Strategy<Value = POp> {
    (
        user(),
        any::<u16>(),
        0u8..4,
        amt_strat(),
        proptest::option::weighted(0.6, proptest::bool::weighted(0.7)),
        slip_strat(),
        prop_oneof![6 => Just(Slip::Default), 1 => slip_strat()],
        proptest::option::weighted(0.2, 0u8..5),
        proptest::option::weighted(0.15, lock_strat()),
    )
        .prop_map(|(user, pool, asset, amt, force_odd, swap_slip, liq_slip, receiver, lock)| POp::Single {
            user, pool, asset, amt, force_odd, swap_slip, liq_slip, receiver, lock,
        })
}

pub fn withdraw_strat() -> impl Strategy<Value = POp> {
    (
        user(),
        any::<u16>(),
        prop_oneof![
            3 => Just(WAmt::All),
            5 => (1u32..1_000_000).prop_map(WAmt::Ppm),
            2 => (1u8..10).prop_map(WAmt::Units),
            1 => Just(WAmt::TooMuch),
        ],
    )
        .prop_map(|(user, pool, amt)| POp::Withdraw { user, pool, amt })
}

pub fn swap_strat() -> impl Strategy<Value = POp> {
    (
        user(),
        any::<u16>(),
        0u8..4,
        0u8..3,
        amt_strat(),
        slip_strat(),
        proptest::option::weighted(
            0.15,
            prop_oneof![8 => (500_000u32..1_500_000).prop_map(|ppm| Belief::AroundQuote { ppm }), 1 => Just(Belief::Zero), 2 => (6u8..=19).prop_map(|exp| Belief::Huge { exp })],
        ),
        recv(),
    )
        .prop_map(|(user, pool, offer, ask, amt, slip, belief, receiver)| POp::Swap {
            user, pool, offer, ask, amt, slip, belief, receiver,
        })
}

pub fn route_strat(simple_only: bool) -> impl Strategy<Value = POp> {
    (
        user(),
        any::<u16>(),
        0u8..4,
        proptest::collection::vec((any::<u16>(), 0u8..3), 0..5),
        if simple_only { proptest::bool::weighted(1.0) } else { proptest::bool::weighted(0.6) },
        amt_strat(),
        prop_oneof![
            4 => Just(MinSpec::None),
            3 => (-2i8..=2).prop_map(MinSpec::Quote),
            1 => any::<u64>().prop_map(MinSpec::Abs),
        ],
        slip_strat(),
        recv(),
    )
        .prop_map(|(user, first_pool, first_offer, hops, simple, amt, min, slip, receiver)| POp::Route {
            user, first_pool, first_offer, hops, simple, amt, min, slip, receiver,
        })
}

pub fn misc_strat() -> impl Strategy<Value = POp> {
    prop_oneof![
        4 => (proptest::option::weighted(0.3, any::<u16>()), 0u8..6, amt_strat()).prop_map(|(lp_of, denom, amt)| POp::Donate { lp_of, denom, amt }),
        2 => (any::<u16>(), proptest::option::of(any::<bool>()), proptest::option::of(any::<bool>()), proptest::option::of(any::<bool>()))
            .prop_map(|(pool, swaps, deposits, withdrawals)| POp::Toggle { pool, swaps, deposits, withdrawals }),
        1 => proptest::option::of(0u8..4).prop_map(|to_user| POp::SetFeeCollector { to_user }),
        1 => (0u32..5000, 0u8..6).prop_map(|(amount, denom)| POp::SetCreationFee { amount, denom }),
        1 => (0u32..200_000).prop_map(|secs| POp::Advance { secs }),
    ]
}

/// Weights of the op kinds; each property tunes them towards what it needs.
#[derive(Debug, Clone, Copy)]
pub struct Weights {
    pub roundtrip: u32,
    pub create: u32,
    pub provide: u32,
    pub single: u32,
    pub withdraw: u32,
    pub swap: u32,
    pub route: u32,
    pub misc: u32,
    pub bad: u32,
}

impl Default for Weights {
    fn default() -> Self {
        Weights { roundtrip: 0, create: 2, provide: 8, single: 4, withdraw: 5, swap: 10, route: 5, misc: 3, bad: 2 }
    }
}

pub fn op_strat(w: Weights, simple_routes: bool) -> impl Strategy<Value = POp> {
    prop_oneof![
        w.create => create_strat().prop_map(POp::Create),
        w.provide => provide_strat(),
        w.single => single_strat(),
        w.withdraw => withdraw_strat(),
        w.swap => swap_strat(),
        w.route => prop_oneof![
            11 => route_strat(simple_routes),
            1 => (0u8..4, any::<u16>(), 0u8..4, amt_strat(), slip_strat(), any::<bool>()).prop_map(|(user, pool, asset, amt, slip, lead_in)| POp::RouteSameDenomHop { user, pool, asset, amt, slip, lead_in }),
        ],
        w.misc => misc_strat(),
        w.bad => bad_strat().prop_map(POp::Bad),
        w.roundtrip => (0u8..4, any::<u16>(), 0u8..4, proptest::collection::vec((any::<u16>(), 0u8..3), 0..3), 1u32..300_000, any::<u16>())
            .prop_map(|(user, pool, offer, path, ppm, close)| POp::RoundTrip { user, pool, offer, path, ppm, close }),
    ]
}

#[derive(Debug, Clone, Serialize, Deserialize, PartialEq)]
pub struct PCfg {
    /// decimals of the six base denoms
    pub decimals: [u8; 6],
    /// 0: no token-factory fee, 1: [1000 uom], 2: [1000 uom, 500 uusdc], 3: same denom as the creation fee
    pub tf_variant: u8,
    pub creation_fee: (u32, u8),
}

pub fn dec_strat() -> impl Strategy<Value = u8> {
    prop_oneof![4 => Just(6u8), 2 => Just(8u8), 1 => Just(12u8), 3 => Just(18u8)]
}

pub fn cfg_strat() -> impl Strategy<Value = PCfg> {
    (
        prop_oneof![
            2 => Just([6u8, 6, 6, 6, 18, 8]),
            1 => Just([6u8; 6]),
            1 => Just([18u8; 6]),
            4 => [dec_strat(), dec_strat(), dec_strat(), dec_strat(), dec_strat(), dec_strat()],
        ],
        0u8..4,
        prop_oneof![1 => Just((0u32, 1u8)), 4 => (1u32..5000, 0u8..6)],
    )
        .prop_map(|(decimals, tf_variant, creation_fee)| PCfg { decimals, tf_variant, creation_fee })
}

#[derive(Debug, Clone, Serialize, Deserialize, PartialEq)]
pub struct PoolCase {
    pub cfg: PCfg,
    /// pools created up front, each followed by a first deposit aimed at it
    pub creates: Vec<(CreateSpec, POp)>,
    pub ops: Vec<POp>,
}

pub fn case_strat(w: Weights, simple_routes: bool, max_ops: usize) -> impl Strategy<Value = PoolCase> {
    (
        cfg_strat(),
        proptest::collection::vec((create_strat(), provide_strat()), 1..=4),
        proptest::collection::vec(op_strat(w, simple_routes), 4..max_ops),
    )
        .prop_map(|(cfg, creates, ops)| PoolCase { cfg, creates, ops })
}
