pub mod interp;
pub mod monitors;
pub mod ops;
