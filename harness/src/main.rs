//! dexcheck <Cxx> [--tier quick|thorough] [--seed N] [--replay FILE] [--strict]
use dexh::framework::*;
use dexh::props;

fn usage() -> ! {
    eprintln!("usage: dexcheck <C01..C20> [--tier quick|thorough] [--seed N] [--replay FILE] [--strict]");
    std::process::exit(2)
}

fn main() {
    // contract panics are caught and treated as rejected transactions: keep them quiet
    if std::env::var("DEXCHECK_LOUD").is_err() {
        std::panic::set_hook(Box::new(|_| {}));
    }
    let args: Vec<String> = std::env::args().skip(1).collect();
    if args.is_empty() {
        usage();
    }
    if args[0] == "dump-corpus" {
        // dexcheck dump-corpus pool|farm N DIR [SEED]
        let n: usize = args.get(2).and_then(|s| s.parse().ok()).unwrap_or(100);
        let seed: u64 = args.get(4).and_then(|s| s.parse().ok()).unwrap_or(1);
        match dexh::fuzzglue::dump_corpus(&args[1], n, &args[3], seed) {
            Ok(()) => std::process::exit(0),
            Err(e) => {
                eprintln!("{e}");
                std::process::exit(2)
            }
        }
    }
    let prop = args[0].to_uppercase();
    let mut tier = match std::env::var("VERIF_TIER").ok().as_deref() {
        Some("thorough") => Tier::Thorough,
        _ => Tier::Quick,
    };
    let mut seed: u64 = std::env::var("VERIF_SEED")
        .ok()
        .and_then(|s| s.trim().parse::<i128>().ok())
        .map(|v| v.rem_euclid(1i128 << 63) as u64)
        .unwrap_or(20261002);
    let mut replay: Option<String> = None;
    let mut i = 1;
    while i < args.len() {
        match args[i].as_str() {
            "--tier" => {
                i += 1;
                tier = match args.get(i).map(|s| s.as_str()) {
                    Some("quick") => Tier::Quick,
                    Some("thorough") => Tier::Thorough,
                    _ => usage(),
                };
            }
            "quick" => tier = Tier::Quick,
            "thorough" => tier = Tier::Thorough,
            "--seed" => {
                i += 1;
                seed = args.get(i).and_then(|s| s.parse().ok()).unwrap_or_else(|| usage());
            }
            "--replay" => {
                i += 1;
                replay = Some(args.get(i).cloned().unwrap_or_else(|| usage()));
            }
            "--strict" => set_strict(true),
            _ => usage(),
        }
        i += 1;
    }
    load_known_findings();
    if let Some(path) = replay {
        std::process::exit(props::replay(&prop, &path));
    }
    let code = match props::run(&prop, tier, seed) {
        Some(rep) => rep.finish(),
        None => {
            eprintln!("unknown property {prop}");
            2
        }
    };
    std::process::exit(code);
}
