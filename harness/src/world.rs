//! The world: a cw-multi-test `App` with the four real contracts from /repo deployed as in the
//! repository's own suites, plus thin wrappers so the harness owns faults and panics.
#![allow(clippy::too_many_arguments)]
use std::cell::{Cell, RefCell};
use std::collections::BTreeMap;
use std::panic::{catch_unwind, AssertUnwindSafe};
use std::rc::Rc;

use anyhow::Result as AnyResult;
use cosmwasm_schema::serde::de::DeserializeOwned;
use cosmwasm_std::testing::MockStorage;
use cosmwasm_std::{
    coin, Addr, AnyMsg, Api, BankMsg, BankQuery, Binary, BlockInfo, Coin, CustomMsg, CustomQuery,
    Decimal, Deps, DepsMut, Empty, Env, GrpcQuery, MessageInfo, Querier, Reply, Response, Storage,
    Timestamp, Uint128, Uint64,
};
use cw_multi_test::{
    App, AppBuilder, AppResponse, Bank, BankKeeper, BankSudo, Contract, ContractWrapper,
    CosmosRouter, DistributionKeeper, Executor, FailingModule, GovFailingModule, IbcFailingModule,
    MockApiBech32, Module, StakeKeeper, Stargate, WasmKeeper,
};
use mantra_common_testing::multi_test::stargate_mock::StargateMock;
use mantra_dex_std::epoch_manager::EpochConfig;
use mantra_dex_std::farm_manager as fm;
use mantra_dex_std::fee::{Fee, PoolFee};
use mantra_dex_std::pool_manager as pm;

/// Shared fault controller: numbers every bank / token-factory / contract *execute* issued while
/// armed and fails the k-th one on demand. Disarmed it is a pure pass-through.
#[derive(Default)]
pub struct FaultCtl {
    pub armed: Cell<bool>,
    pub counter: Cell<u64>,
    pub fail_at: Cell<Option<u64>>,
    pub log: RefCell<Vec<String>>,
    /// optional predicate-style fault: fail every bank send whose recipient is this address
    pub fail_send_to: RefCell<Option<String>>,
    /// optional predicate-style fault (a frozen token): fail every bank send by `from` that contains `denom`
    pub frozen: RefCell<Option<(String, String)>>,
}

impl FaultCtl {
    fn tick(&self, what: impl FnOnce() -> String) -> AnyResult<()> {
        if !self.armed.get() {
            return Ok(());
        }
        let n = self.counter.get();
        self.counter.set(n + 1);
        let what = what();
        self.log.borrow_mut().push(what.clone());
        if self.fail_at.get() == Some(n) {
            anyhow::bail!("injected fault at call {n}: {what}")
        }
        Ok(())
    }
    pub fn arm(&self, k: Option<u64>) {
        self.armed.set(true);
        self.counter.set(0);
        self.fail_at.set(k);
        self.log.borrow_mut().clear();
    }
    pub fn disarm(&self) -> (u64, Vec<String>) {
        self.armed.set(false);
        self.fail_at.set(None);
        (self.counter.get(), self.log.borrow().clone())
    }
}

pub struct FaultyBank {
    inner: BankKeeper,
    ctl: Rc<FaultCtl>,
}

impl FaultyBank {
    pub fn init_balance(
        &self,
        storage: &mut dyn Storage,
        account: &Addr,
        amount: Vec<Coin>,
    ) -> AnyResult<()> {
        self.inner.init_balance(storage, account, amount)
    }
}

impl Bank for FaultyBank {}

impl Module for FaultyBank {
    type ExecT = BankMsg;
    type QueryT = BankQuery;
    type SudoT = BankSudo;

    fn execute<ExecC, QueryC>(
        &self,
        api: &dyn Api,
        storage: &mut dyn Storage,
        router: &dyn CosmosRouter<ExecC = ExecC, QueryC = QueryC>,
        block: &BlockInfo,
        sender: Addr,
        msg: BankMsg,
    ) -> AnyResult<AppResponse>
    where
        ExecC: CustomMsg + DeserializeOwned + 'static,
        QueryC: CustomQuery + DeserializeOwned + 'static,
    {
        if let BankMsg::Send { amount, .. } = &msg {
            if let Some((from, denom)) = self.ctl.frozen.borrow().as_ref() {
                if sender.as_str() == from && amount.iter().any(|c| &c.denom == denom) {
                    anyhow::bail!("injected fault: transfers of {denom} by {from} are frozen")
                }
            }
        }
        if let BankMsg::Send { to_address, .. } = &msg {
            if let Some(t) = self.ctl.fail_send_to.borrow().as_ref() {
                if t == to_address {
                    anyhow::bail!("injected fault: transfers to {t} are frozen")
                }
            }
        }
        self.ctl.tick(|| match &msg {
            BankMsg::Send { to_address, amount } => {
                format!("bank.send {}->{} {:?}", short(sender.as_str()), short(to_address), amount.iter().map(|c| c.to_string()).collect::<Vec<_>>())
            }
            BankMsg::Burn { amount } => format!("bank.burn {} {:?}", short(sender.as_str()), amount.iter().map(|c| c.to_string()).collect::<Vec<_>>()),
            _ => "bank.other".to_string(),
        })?;
        self.inner.execute(api, storage, router, block, sender, msg)
    }

    fn query(
        &self,
        api: &dyn Api,
        storage: &dyn Storage,
        querier: &dyn Querier,
        block: &BlockInfo,
        request: BankQuery,
    ) -> AnyResult<Binary> {
        self.inner.query(api, storage, querier, block, request)
    }

    fn sudo<ExecC, QueryC>(
        &self,
        api: &dyn Api,
        storage: &mut dyn Storage,
        router: &dyn CosmosRouter<ExecC = ExecC, QueryC = QueryC>,
        block: &BlockInfo,
        msg: BankSudo,
    ) -> AnyResult<AppResponse>
    where
        ExecC: CustomMsg + DeserializeOwned + 'static,
        QueryC: CustomQuery + DeserializeOwned + 'static,
    {
        self.inner.sudo(api, storage, router, block, msg)
    }
}

fn short(a: &str) -> String {
    if a.len() > 14 {
        format!("…{}", &a[a.len() - 6..])
    } else {
        a.to_string()
    }
}

pub struct FaultyStargate {
    inner: StargateMock,
    ctl: Rc<FaultCtl>,
}

impl Stargate for FaultyStargate {
    fn execute_any<ExecC, QueryC>(
        &self,
        api: &dyn Api,
        storage: &mut dyn Storage,
        router: &dyn CosmosRouter<ExecC = ExecC, QueryC = QueryC>,
        block: &BlockInfo,
        sender: Addr,
        msg: AnyMsg,
    ) -> AnyResult<AppResponse>
    where
        ExecC: CustomMsg + DeserializeOwned + 'static,
        QueryC: CustomQuery + DeserializeOwned + 'static,
    {
        self.ctl.tick(|| {
            format!(
                "tf.{} by {}",
                msg.type_url.rsplit('.').next().unwrap_or(""),
                short(sender.as_str())
            )
        })?;
        // the inner mock itself routes a bank burn; do not count that as a separate call
        let armed = self.ctl.armed.get();
        self.ctl.armed.set(false);
        let r = self
            .inner
            .execute_any(api, storage, router, block, sender, msg);
        self.ctl.armed.set(armed);
        r
    }

    fn query_stargate(
        &self,
        api: &dyn Api,
        storage: &dyn Storage,
        querier: &dyn Querier,
        block: &BlockInfo,
        path: String,
        data: Binary,
    ) -> AnyResult<Binary> {
        self.inner
            .query_stargate(api, storage, querier, block, path, data)
    }

    fn query_grpc(
        &self,
        api: &dyn Api,
        storage: &dyn Storage,
        querier: &dyn Querier,
        block: &BlockInfo,
        request: GrpcQuery,
    ) -> AnyResult<Binary> {
        self.inner.query_grpc(api, storage, querier, block, request)
    }
}

/// Wraps a contract so that each `execute` entry (top-level call, sub-call, self-call) is one
/// numbered call of the fault controller.
pub struct FaultyContract {
    inner: Box<dyn Contract<Empty>>,
    ctl: Rc<FaultCtl>,
    label: &'static str,
}

impl Contract<Empty> for FaultyContract {
    fn execute(
        &self,
        deps: DepsMut,
        env: Env,
        info: MessageInfo,
        msg: Vec<u8>,
    ) -> AnyResult<Response> {
        self.ctl.tick(|| {
            let m = String::from_utf8_lossy(&msg);
            let head: String = m.chars().take(48).collect();
            format!("wasm.{} by {} {}", self.label, short(info.sender.as_str()), head)
        })?;
        self.inner.execute(deps, env, info, msg)
    }
    fn instantiate(
        &self,
        deps: DepsMut,
        env: Env,
        info: MessageInfo,
        msg: Vec<u8>,
    ) -> AnyResult<Response> {
        self.inner.instantiate(deps, env, info, msg)
    }
    fn query(&self, deps: Deps, env: Env, msg: Vec<u8>) -> AnyResult<Binary> {
        self.inner.query(deps, env, msg)
    }
    fn sudo(&self, deps: DepsMut, env: Env, msg: Vec<u8>) -> AnyResult<Response> {
        self.inner.sudo(deps, env, msg)
    }
    fn reply(&self, deps: DepsMut, env: Env, msg: Reply) -> AnyResult<Response> {
        self.inner.reply(deps, env, msg)
    }
    fn migrate(&self, deps: DepsMut, env: Env, msg: Vec<u8>) -> AnyResult<Response> {
        self.inner.migrate(deps, env, msg)
    }
}

pub type DexApp = App<
    FaultyBank,
    MockApiBech32,
    MockStorage,
    FailingModule<Empty, Empty, Empty>,
    WasmKeeper<Empty, Empty>,
    StakeKeeper,
    DistributionKeeper,
    IbcFailingModule,
    GovFailingModule,
    FaultyStargate,
>;

fn c_pool() -> Box<dyn Contract<Empty>> {
    Box::new(
        ContractWrapper::new_with_empty(
            pool_manager::contract::execute,
            pool_manager::contract::instantiate,
            pool_manager::contract::query,
        )
        .with_reply(pool_manager::contract::reply),
    )
}
fn c_farm() -> Box<dyn Contract<Empty>> {
    Box::new(
        ContractWrapper::new(
            farm_manager::contract::execute,
            farm_manager::contract::instantiate,
            farm_manager::contract::query,
        )
        .with_reply(farm_manager::contract::reply),
    )
}
fn c_epoch() -> Box<dyn Contract<Empty>> {
    Box::new(ContractWrapper::new(
        epoch_manager::contract::execute,
        epoch_manager::contract::instantiate,
        epoch_manager::contract::query,
    ))
}
fn c_fee() -> Box<dyn Contract<Empty>> {
    Box::new(ContractWrapper::new(
        fee_collector::contract::execute,
        fee_collector::contract::instantiate,
        fee_collector::contract::query,
    ))
}

pub const GENESIS: u64 = 1_714_057_200;
pub const DAY: u64 = 86_400;
pub const YEAR: u64 = 31_556_926;
pub const MONTH: u64 = mantra_dex_std::constants::MONTH_IN_SECONDS;

#[derive(Clone, Debug, serde::Serialize, serde::Deserialize, PartialEq)]
pub struct WorldCfg {
    /// base denoms and their (real) decimals
    pub denoms: Vec<(String, u8)>,
    pub initial: u128,
    pub n_users: usize,
    pub tf_fees: Vec<(u128, String)>,
    pub pool_creation_fee: (u128, String),
    pub farm_fee: (u128, String),
    pub max_concurrent_farms: u32,
    /// emergency penalty in basis points of 100% (0..=10000)
    pub emergency_penalty_bp: u64,
    pub min_unlocking: u64,
    pub max_unlocking: u64,
    pub epoch_buffer: u32,
    pub farm_expiration: u64,
}

impl Default for WorldCfg {
    fn default() -> Self {
        WorldCfg {
            denoms: [
                ("uom", 6u8),
                ("uusd", 6),
                ("uusdc", 6),
                ("uusdt", 6),
                ("uweth", 18),
                ("ubtc", 8),
            ]
            .iter()
            .map(|(s, d)| (s.to_string(), *d))
            .collect(),
            initial: 10u128.pow(36),
            n_users: 4,
            tf_fees: vec![(1000, "uom".into())],
            pool_creation_fee: (1000, "uusd".into()),
            farm_fee: (1000, "uom".into()),
            max_concurrent_farms: 3,
            emergency_penalty_bp: 1000,
            min_unlocking: DAY,
            max_unlocking: YEAR,
            epoch_buffer: 14,
            farm_expiration: MONTH,
        }
    }
}

impl WorldCfg {
    pub fn decimals_of(&self, denom: &str) -> u8 {
        self.denoms
            .iter()
            .find(|(d, _)| d == denom)
            .map(|(_, x)| *x)
            .unwrap_or(6)
    }
    pub fn tf_fee_coins(&self) -> Vec<Coin> {
        self.tf_fees.iter().map(|(a, d)| coin(*a, d)).collect()
    }
    pub fn creation_fee_coin(&self) -> Coin {
        coin(self.pool_creation_fee.0, &self.pool_creation_fee.1)
    }
    pub fn farm_fee_coin(&self) -> Coin {
        coin(self.farm_fee.0, &self.farm_fee.1)
    }
}

pub struct World {
    pub app: DexApp,
    pub ctl: Rc<FaultCtl>,
    pub users: Vec<Addr>,
    pub owner: Addr,
    pub outsider: Addr,
    pub fee_collector: Addr,
    pub pool_manager: Addr,
    pub farm_manager: Addr,
    pub epoch_manager: Addr,
    pub cfg: WorldCfg,
}

pub type ExecResult = Result<AppResponse, String>;

pub fn panic_msg(p: Box<dyn std::any::Any + Send>) -> String {
    if let Some(s) = p.downcast_ref::<String>() {
        s.clone()
    } else if let Some(s) = p.downcast_ref::<&str>() {
        s.to_string()
    } else {
        "panic".to_string()
    }
}

impl World {
    pub fn new(cfg: WorldCfg) -> World {
        let ctl = Rc::new(FaultCtl::default());
        let api = MockApiBech32::new("mantra");
        let owner = api.addr_make("owner");
        let outsider = api.addr_make("outsider");
        let users: Vec<Addr> = (0..cfg.n_users)
            .map(|i| api.addr_make(&format!("user{i}")))
            .collect();
        let bank = FaultyBank {
            inner: BankKeeper::new(),
            ctl: ctl.clone(),
        };
        let sg = FaultyStargate {
            inner: StargateMock::new(cfg.tf_fee_coins()),
            ctl: ctl.clone(),
        };
        let mut accounts = users.clone();
        accounts.push(owner.clone());
        accounts.push(outsider.clone());
        let bal: Vec<Coin> = cfg
            .denoms
            .iter()
            .map(|(d, _)| coin(cfg.initial, d))
            .collect();
        let mut app: DexApp = AppBuilder::new()
            .with_api(api)
            .with_wasm(WasmKeeper::default())
            .with_bank(bank)
            .with_stargate(sg)
            .build(|router, _api, storage| {
                for a in accounts.iter() {
                    router.bank.init_balance(storage, a, bal.clone()).unwrap();
                }
            });
        let mut b = app.block_info();
        b.time = Timestamp::from_seconds(GENESIS);
        app.set_block(b);

        let wrap = |inner: Box<dyn Contract<Empty>>, label: &'static str| -> Box<dyn Contract<Empty>> {
            Box::new(FaultyContract {
                inner,
                ctl: ctl.clone(),
                label,
            })
        };
        let id_e = app.store_code(wrap(c_epoch(), "epoch"));
        let id_f = app.store_code(wrap(c_fee(), "feecol"));
        let id_farm = app.store_code(wrap(c_farm(), "farm"));
        let id_p = app.store_code(wrap(c_pool(), "pool"));

        let epoch_manager = app
            .instantiate_contract(
                id_e,
                owner.clone(),
                &mantra_dex_std::epoch_manager::InstantiateMsg {
                    owner: owner.to_string(),
                    epoch_config: EpochConfig {
                        duration: Uint64::new(DAY),
                        genesis_epoch: Uint64::new(GENESIS),
                    },
                },
                &[],
                "epoch",
                None,
            )
            .unwrap();
        let fee_collector = app
            .instantiate_contract(
                id_f,
                owner.clone(),
                &mantra_dex_std::fee_collector::InstantiateMsg {},
                &[],
                "fee",
                None,
            )
            .unwrap();
        let farm_manager = app
            .instantiate_contract(
                id_farm,
                owner.clone(),
                &fm::InstantiateMsg {
                    owner: owner.to_string(),
                    epoch_manager_addr: epoch_manager.to_string(),
                    fee_collector_addr: fee_collector.to_string(),
                    pool_manager_addr: "".to_string(),
                    create_farm_fee: cfg.farm_fee_coin(),
                    max_concurrent_farms: cfg.max_concurrent_farms,
                    max_farm_epoch_buffer: cfg.epoch_buffer,
                    min_unlocking_duration: cfg.min_unlocking,
                    max_unlocking_duration: cfg.max_unlocking,
                    farm_expiration_time: cfg.farm_expiration,
                    emergency_unlock_penalty: Decimal::from_ratio(cfg.emergency_penalty_bp, 10_000u64),
                },
                &[],
                "farm",
                None,
            )
            .unwrap();
        let pool_manager = app
            .instantiate_contract(
                id_p,
                owner.clone(),
                &pm::InstantiateMsg {
                    fee_collector_addr: fee_collector.to_string(),
                    farm_manager_addr: farm_manager.to_string(),
                    pool_creation_fee: cfg.creation_fee_coin(),
                },
                &[],
                "pool",
                None,
            )
            .unwrap();
        app.execute_contract(
            owner.clone(),
            farm_manager.clone(),
            &fm::ExecuteMsg::UpdateConfig {
                fee_collector_addr: None,
                epoch_manager_addr: None,
                pool_manager_addr: Some(pool_manager.to_string()),
                create_farm_fee: None,
                max_concurrent_farms: None,
                max_farm_epoch_buffer: None,
                min_unlocking_duration: None,
                max_unlocking_duration: None,
                farm_expiration_time: None,
                emergency_unlock_penalty: None,
            },
            &[],
        )
        .unwrap();
        World {
            app,
            ctl,
            users,
            owner,
            outsider,
            fee_collector,
            pool_manager,
            farm_manager,
            epoch_manager,
            cfg,
        }
    }

    pub fn now(&self) -> u64 {
        self.app.block_info().time.seconds()
    }
    pub fn advance(&mut self, secs: u64) {
        let mut b = self.app.block_info();
        b.time = b.time.plus_seconds(secs);
        b.height += 1;
        self.app.set_block(b);
    }
    pub fn set_time(&mut self, t: u64) {
        let mut b = self.app.block_info();
        b.time = Timestamp::from_seconds(t);
        b.height += 1;
        self.app.set_block(b);
    }
    pub fn epoch(&self) -> u64 {
        (self.now() - GENESIS) / DAY
    }

    /// All accounts whose balances are tracked in snapshots.
    pub fn accounts(&self) -> Vec<(String, Addr)> {
        let mut v: Vec<(String, Addr)> = self
            .users
            .iter()
            .enumerate()
            .map(|(i, a)| (format!("user{i}"), a.clone()))
            .collect();
        v.push(("owner".into(), self.owner.clone()));
        v.push(("outsider".into(), self.outsider.clone()));
        v.push(("fee_collector".into(), self.fee_collector.clone()));
        v.push(("pool_manager".into(), self.pool_manager.clone()));
        v.push(("farm_manager".into(), self.farm_manager.clone()));
        v.push(("epoch_manager".into(), self.epoch_manager.clone()));
        v
    }

    /// Execute with panic capture: a contract panic counts as a rejected transaction (on chain a
    /// wasm trap aborts the tx; cw-multi-test only commits its storage cache on success).
    pub fn exec<T: serde::Serialize + std::fmt::Debug>(
        &mut self,
        sender: &Addr,
        contract: &Addr,
        msg: &T,
        funds: &[Coin],
    ) -> ExecResult {
        let app = &mut self.app;
        let r = catch_unwind(AssertUnwindSafe(|| {
            app.execute_contract(sender.clone(), contract.clone(), msg, funds)
        }));
        match r {
            Ok(Ok(r)) => Ok(r),
            Ok(Err(e)) => Err(format!("{}", e.root_cause())),
            Err(p) => Err(format!("PANIC: {}", panic_msg(p))),
        }
    }

    pub fn bank_send(&mut self, from: &Addr, to: &Addr, funds: &[Coin]) -> ExecResult {
        let app = &mut self.app;
        let r = catch_unwind(AssertUnwindSafe(|| {
            app.send_tokens(from.clone(), to.clone(), funds)
        }));
        match r {
            Ok(Ok(r)) => Ok(r),
            Ok(Err(e)) => Err(format!("{}", e.root_cause())),
            Err(p) => Err(format!("PANIC: {}", panic_msg(p))),
        }
    }

    pub fn pm_exec(&mut self, sender: &Addr, msg: &pm::ExecuteMsg, funds: &[Coin]) -> ExecResult {
        let c = self.pool_manager.clone();
        self.exec(sender, &c, msg, funds)
    }
    pub fn fm_exec(&mut self, sender: &Addr, msg: &fm::ExecuteMsg, funds: &[Coin]) -> ExecResult {
        let c = self.farm_manager.clone();
        self.exec(sender, &c, msg, funds)
    }

    pub fn query<T: DeserializeOwned, Q: serde::Serialize>(
        &self,
        contract: &Addr,
        q: &Q,
    ) -> Result<T, String> {
        let app = &self.app;
        match catch_unwind(AssertUnwindSafe(|| {
            app.wrap().query_wasm_smart::<T>(contract.to_string(), q)
        })) {
            Ok(Ok(v)) => Ok(v),
            Ok(Err(e)) => Err(e.to_string()),
            Err(p) => Err(format!("PANIC: {}", panic_msg(p))),
        }
    }

    pub fn balance(&self, who: &Addr, denom: &str) -> u128 {
        self.app
            .wrap()
            .query_balance(who.to_string(), denom)
            .unwrap()
            .amount
            .u128()
    }
    #[allow(deprecated)]
    pub fn all_balances(&self, who: &Addr) -> BTreeMap<String, u128> {
        self.app
            .wrap()
            .query_all_balances(who.to_string())
            .unwrap()
            .into_iter()
            .map(|c| (c.denom, c.amount.u128()))
            .collect()
    }
    pub fn supply(&self, denom: &str) -> u128 {
        self.app.wrap().query_supply(denom).unwrap().amount.u128()
    }

    pub fn pools(&self) -> Vec<pm::PoolInfoResponse> {
        let r: pm::PoolsResponse = self
            .query(
                &self.pool_manager,
                &pm::QueryMsg::Pools {
                    pool_identifier: None,
                    start_after: None,
                    limit: Some(100),
                },
            )
            .unwrap();
        r.pools
    }
    pub fn pool(&self, id: &str) -> Option<pm::PoolInfoResponse> {
        let r: Result<pm::PoolsResponse, String> = self.query(
            &self.pool_manager,
            &pm::QueryMsg::Pools {
                pool_identifier: Some(id.to_string()),
                start_after: None,
                limit: None,
            },
        );
        r.ok().and_then(|r| r.pools.into_iter().next())
    }
    pub fn lp_denom(&self, id: &str) -> String {
        format!("factory/{}/{}.LP", self.pool_manager, id)
    }

    /// the exact funds a pool creation needs under the current world configuration
    pub fn creation_funds(&self, creation_fee: &Coin) -> Vec<Coin> {
        let mut funds = vec![creation_fee.clone()];
        for f in self.cfg.tf_fee_coins() {
            if let Some(x) = funds.iter_mut().find(|c| c.denom == f.denom) {
                x.amount += f.amount;
            } else {
                funds.push(f);
            }
        }
        funds.retain(|c| !c.amount.is_zero());
        funds.sort_by(|a, b| a.denom.cmp(&b.denom));
        funds
    }

    pub fn create_pool(
        &mut self,
        sender: &Addr,
        denoms: &[&str],
        decimals: &[u8],
        fees: PoolFee,
        ty: pm::PoolType,
        id: Option<&str>,
    ) -> ExecResult {
        let funds = self.creation_funds(&self.cfg.creation_fee_coin());
        self.pm_exec(
            sender,
            &pm::ExecuteMsg::CreatePool {
                asset_denoms: denoms.iter().map(|s| s.to_string()).collect(),
                asset_decimals: decimals.to_vec(),
                pool_fees: fees,
                pool_type: ty,
                pool_identifier: id.map(|s| s.to_string()),
            },
            &funds,
        )
    }

    pub fn provide(
        &mut self,
        sender: &Addr,
        id: &str,
        funds: &[Coin],
        liq_slip: Option<Decimal>,
        swap_slip: Option<Decimal>,
        receiver: Option<String>,
        unlocking: Option<u64>,
        lock_id: Option<String>,
    ) -> ExecResult {
        let mut funds = funds.to_vec();
        funds.sort_by(|a, b| a.denom.cmp(&b.denom));
        self.pm_exec(
            sender,
            &pm::ExecuteMsg::ProvideLiquidity {
                liquidity_max_slippage: liq_slip,
                swap_max_slippage: swap_slip,
                receiver,
                pool_identifier: id.to_string(),
                unlocking_duration: unlocking,
                lock_position_identifier: lock_id,
            },
            &funds,
        )
    }
    pub fn withdraw(&mut self, sender: &Addr, id: &str, lp: u128) -> ExecResult {
        let d = self.lp_denom(id);
        self.pm_exec(
            sender,
            &pm::ExecuteMsg::WithdrawLiquidity {
                pool_identifier: id.to_string(),
            },
            &[coin(lp, d)],
        )
    }
    pub fn swap(
        &mut self,
        sender: &Addr,
        id: &str,
        offer: Coin,
        ask: &str,
        belief: Option<Decimal>,
        max_slip: Option<Decimal>,
        receiver: Option<String>,
    ) -> ExecResult {
        self.pm_exec(
            sender,
            &pm::ExecuteMsg::Swap {
                ask_asset_denom: ask.to_string(),
                belief_price: belief,
                max_slippage: max_slip,
                receiver,
                pool_identifier: id.to_string(),
            },
            &[offer],
        )
    }
    pub fn simulate(
        &self,
        id: &str,
        offer: Coin,
        ask: &str,
    ) -> Result<pm::SimulationResponse, String> {
        self.query(
            &self.pool_manager,
            &pm::QueryMsg::Simulation {
                offer_asset: offer,
                ask_asset_denom: ask.to_string(),
                pool_identifier: id.to_string(),
            },
        )
    }

    // farm manager helpers
    pub fn positions(&self, who: &Addr, open: Option<bool>) -> Vec<fm::Position> {
        let r: fm::PositionsResponse = self
            .query(
                &self.farm_manager,
                &fm::QueryMsg::Positions {
                    filter_by: Some(fm::PositionsBy::Receiver(who.to_string())),
                    open_state: open,
                    start_after: None,
                    limit: Some(100),
                },
            )
            .unwrap();
        r.positions
    }
    /// every position of an address (open and closed; each list is capped at 10 by the contract)
    pub fn all_positions(&self, who: &Addr) -> Vec<fm::Position> {
        let mut v = self.positions(who, Some(true));
        v.extend(self.positions(who, Some(false)));
        v
    }
    pub fn position_by_id(&self, id: &str) -> Option<fm::Position> {
        let r: Result<fm::PositionsResponse, String> = self.query(
            &self.farm_manager,
            &fm::QueryMsg::Positions {
                filter_by: Some(fm::PositionsBy::Identifier(id.to_string())),
                open_state: None,
                start_after: None,
                limit: None,
            },
        );
        r.ok().and_then(|r| r.positions.into_iter().next())
    }
    pub fn farms(&self) -> Vec<fm::Farm> {
        let r: fm::FarmsResponse = self
            .query(
                &self.farm_manager,
                &fm::QueryMsg::Farms {
                    filter_by: None,
                    start_after: None,
                    limit: Some(100),
                },
            )
            .unwrap();
        r.farms
    }
    pub fn lp_weight(&self, who: &Addr, denom: &str, epoch: u64) -> Option<u128> {
        let r: Result<fm::LpWeightResponse, String> = self.query(
            &self.farm_manager,
            &fm::QueryMsg::LpWeight {
                address: who.to_string(),
                denom: denom.to_string(),
                epoch_id: epoch,
            },
        );
        r.ok().map(|r| r.lp_weight.u128())
    }
    pub fn rewards(&self, who: &Addr, until: Option<u64>) -> Result<Vec<Coin>, String> {
        let r: fm::RewardsResponse = self.query(
            &self.farm_manager,
            &fm::QueryMsg::Rewards {
                address: who.to_string(),
                until_epoch: until,
            },
        )?;
        match r {
            fm::RewardsResponse::RewardsResponse { total_rewards, .. } => Ok(total_rewards),
            _ => Err("unexpected response variant".into()),
        }
    }
    pub fn claim(&mut self, who: &Addr, until: Option<u64>) -> ExecResult {
        self.fm_exec(who, &fm::ExecuteMsg::Claim { until_epoch: until }, &[])
    }
    pub fn pos(&mut self, who: &Addr, action: fm::PositionAction, funds: &[Coin]) -> ExecResult {
        self.fm_exec(who, &fm::ExecuteMsg::ManagePosition { action }, funds)
    }
    pub fn farm(&mut self, who: &Addr, action: fm::FarmAction, funds: &[Coin]) -> ExecResult {
        self.fm_exec(who, &fm::ExecuteMsg::ManageFarm { action }, funds)
    }

    /// Raw storage of the four contracts (key/value pairs, ordered).
    pub fn raw_storage(&self) -> Vec<(String, Vec<(Vec<u8>, Vec<u8>)>)> {
        [
            ("pool_manager", &self.pool_manager),
            ("farm_manager", &self.farm_manager),
            ("epoch_manager", &self.epoch_manager),
            ("fee_collector", &self.fee_collector),
        ]
        .iter()
        .map(|(n, a)| (n.to_string(), self.app.dump_wasm_raw(a)))
        .collect()
    }
}

pub fn fees(protocol_bp: u64, swap_bp: u64, burn_bp: u64, extra_bp: &[u64]) -> PoolFee {
    let f = |bp: u64| Fee {
        share: Decimal::from_ratio(bp, 10_000u64),
    };
    PoolFee {
        protocol_fee: f(protocol_bp),
        swap_fee: f(swap_bp),
        burn_fee: f(burn_bp),
        extra_fees: extra_bp.iter().map(|b| f(*b)).collect(),
    }
}

pub fn u(x: u128) -> Uint128 {
    Uint128::new(x)
}

/// Full observable state: balances of every tracked account, supplies, raw contract storage.
#[derive(Clone, PartialEq, Eq, Debug)]
pub struct Snapshot {
    pub balances: BTreeMap<(String, String), u128>,
    pub supply: BTreeMap<String, u128>,
    pub storage: Vec<(String, Vec<(Vec<u8>, Vec<u8>)>)>,
}

impl Snapshot {
    pub fn take(w: &World) -> Snapshot {
        let mut balances = BTreeMap::new();
        let mut denoms: std::collections::BTreeSet<String> = Default::default();
        for (name, a) in w.accounts() {
            for (d, v) in w.all_balances(&a) {
                denoms.insert(d.clone());
                if v != 0 {
                    balances.insert((name.clone(), d), v);
                }
            }
        }
        for (d, _) in w.cfg.denoms.iter() {
            denoms.insert(d.clone());
        }
        let supply = denoms
            .into_iter()
            .map(|d| {
                let s = w.supply(&d);
                (d, s)
            })
            .collect();
        Snapshot {
            balances,
            supply,
            storage: w.raw_storage(),
        }
    }
    pub fn bal(&self, who: &str, denom: &str) -> u128 {
        self.balances
            .get(&(who.to_string(), denom.to_string()))
            .copied()
            .unwrap_or(0)
    }
    /// human-readable list of differences (empty when equal)
    pub fn diff(&self, other: &Snapshot) -> Vec<String> {
        let mut out = vec![];
        let keys: std::collections::BTreeSet<_> = self
            .balances
            .keys()
            .chain(other.balances.keys())
            .cloned()
            .collect();
        for k in keys {
            let a = self.balances.get(&k).copied().unwrap_or(0);
            let b = other.balances.get(&k).copied().unwrap_or(0);
            if a != b {
                out.push(format!("balance {} {}: {} -> {}", k.0, k.1, a, b));
            }
        }
        let keys: std::collections::BTreeSet<_> =
            self.supply.keys().chain(other.supply.keys()).cloned().collect();
        for k in keys {
            let a = self.supply.get(&k).copied().unwrap_or(0);
            let b = other.supply.get(&k).copied().unwrap_or(0);
            if a != b {
                out.push(format!("supply {}: {} -> {}", k, a, b));
            }
        }
        for ((n, sa), (_, sb)) in self.storage.iter().zip(other.storage.iter()) {
            if sa != sb {
                let ma: BTreeMap<_, _> = sa.iter().cloned().collect();
                let mb: BTreeMap<_, _> = sb.iter().cloned().collect();
                let keys: std::collections::BTreeSet<_> =
                    ma.keys().chain(mb.keys()).cloned().collect();
                for k in keys {
                    if ma.get(&k) != mb.get(&k) {
                        out.push(format!(
                            "storage {} key {:?}: {:?} -> {:?}",
                            n,
                            String::from_utf8_lossy(&k),
                            ma.get(&k).map(|v| String::from_utf8_lossy(v).to_string()),
                            mb.get(&k).map(|v| String::from_utf8_lossy(v).to_string())
                        ));
                    }
                }
            }
        }
        out
    }
}
