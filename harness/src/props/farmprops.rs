//! C05..C11 — farm-history checks (engine F with the property's monitors on).
use crate::farm::interp::FMon;
use crate::farm::ops::FWeights;
use crate::framework::*;
use crate::props::farm_hist::FarmHist;

const WORLD_ASSUMPTIONS: [&str; 3] = [
    "contracts run natively inside cw-multi-test with mantra-common-testing's token-factory mock, as in the repository's own suites",
    "a contract panic is a rejected transaction (cw-multi-test commits storage only on success)",
    "epochs last one day from a fixed genesis; LP tokens come from 1-3 constant-product pools funded by four users",
];

fn n(tier: Tier, q: u64, t: u64) -> u64 {
    match tier {
        Tier::Quick => q,
        Tier::Thorough => t,
    }
}

pub fn c05_engine() -> FarmHist {
    FarmHist {
        name: "farm-history-custody",
        mon: FMon { c05: true, ..FMon::default() },
        weights: FWeights { farm: 6, expand_farm: 2, close_farm: 3, open: 8, expand_pos: 4, close_pos: 7, withdraw: 7, lock_pm: 2, claim: 9, advance: 9, config: 1, bad: 1 },
        max_ops_quick: 40,
        max_ops_thorough: 80,
        liquidate: true,
    }
}
pub fn c06_engine() -> FarmHist {
    FarmHist {
        name: "farm-history-emission-bound",
        mon: FMon { c06: true, ..FMon::default() },
        weights: FWeights { farm: 6, expand_farm: 2, close_farm: 1, open: 8, expand_pos: 6, close_pos: 4, withdraw: 3, lock_pm: 1, claim: 14, advance: 10, config: 0, bad: 0 },
        max_ops_quick: 40,
        max_ops_thorough: 80,
        liquidate: false,
    }
}
pub fn c07_engine() -> FarmHist {
    FarmHist {
        name: "farm-history-exact-shares",
        mon: FMon { c07: true, ..FMon::default() },
        weights: FWeights { farm: 6, expand_farm: 2, close_farm: 1, open: 8, expand_pos: 6, close_pos: 4, withdraw: 3, lock_pm: 1, claim: 14, advance: 10, config: 0, bad: 0 },
        max_ops_quick: 40,
        max_ops_thorough: 80,
        liquidate: false,
    }
}
pub fn c08_engine() -> FarmHist {
    FarmHist {
        name: "farm-history-positions",
        mon: FMon { c08: true, ..FMon::default() },
        weights: FWeights { farm: 2, expand_farm: 0, close_farm: 1, open: 9, expand_pos: 6, close_pos: 8, withdraw: 10, lock_pm: 3, claim: 4, advance: 10, config: 2, bad: 2 },
        max_ops_quick: 40,
        max_ops_thorough: 80,
        liquidate: false,
    }
}
pub fn c09_engine() -> FarmHist {
    FarmHist {
        name: "farm-history-emergency",
        mon: FMon { c09: true, ..FMon::default() },
        weights: FWeights { farm: 7, expand_farm: 1, close_farm: 1, open: 10, expand_pos: 3, close_pos: 6, withdraw: 14, lock_pm: 1, claim: 3, advance: 9, config: 3, bad: 0 },
        max_ops_quick: 40,
        max_ops_thorough: 80,
        liquidate: false,
    }
}
pub fn c10_engine() -> FarmHist {
    FarmHist {
        name: "farm-history-weights",
        mon: FMon { c10: true, ..FMon::default() },
        weights: FWeights { farm: 1, expand_farm: 0, close_farm: 0, open: 10, expand_pos: 9, close_pos: 9, withdraw: 6, lock_pm: 2, claim: 4, advance: 8, config: 0, bad: 0 },
        max_ops_quick: 40,
        max_ops_thorough: 80,
        liquidate: false,
    }
}
pub fn c11_engine() -> FarmHist {
    FarmHist {
        name: "farm-history-lifecycle",
        mon: FMon { c11: true, ..FMon::default() },
        weights: FWeights { farm: 12, expand_farm: 6, close_farm: 5, open: 5, expand_pos: 1, close_pos: 2, withdraw: 1, lock_pm: 0, claim: 8, advance: 10, config: 2, bad: 1 },
        max_ops_quick: 40,
        max_ops_thorough: 80,
        liquidate: false,
    }
}
pub fn c20_farm_engine() -> FarmHist {
    FarmHist {
        name: "farm-history-rejections",
        mon: FMon { c20: true, ..FMon::default() },
        weights: FWeights { farm: 6, expand_farm: 3, close_farm: 3, open: 7, expand_pos: 5, close_pos: 6, withdraw: 7, lock_pm: 2, claim: 8, advance: 8, config: 2, bad: 5 },
        max_ops_quick: 40,
        max_ops_thorough: 80,
        liquidate: false,
    }
}

fn base(id: &str, tier: Tier, seed: u64, rule: &str) -> PropReport {
    let mut rep = PropReport::new(id, tier, seed, "exploration", rule);
    rep.assumptions = WORLD_ASSUMPTIONS.iter().map(|s| s.to_string()).collect();
    rep
}

const GEN: &str = "cases = (farm fee variant: zero / in a reward denom / in another denom; max concurrent farms 1-3; emergency penalty 0-100%; 1-3 LP tokens) x 5..N generated operations by four users: create/expand/close farm (funds exact, fee over/under-paid, extra or missing coins; start/end epochs inside and outside the buffer; explicit and generated identifiers; rewards in base denoms or in an LP token that is also locked in positions), open/expand/partially or fully close/withdraw/emergency-withdraw positions (amounts 1..10^11, durations 1 day..1 year incl. the anchors +-1s and out-of-range values, explicit identifiers, other senders), locked deposits through the pool manager, Claim with until_epoch from {none, back-dated, around the cursor, future}, time advances by epochs, seconds, to unlock instants +-1s and to farm expiry +-1s, config changes, invalid messages; the checker keeps its own ledger (positions, farms, weight in effect per epoch read through the public LpWeight query right after each position operation, claim cursors) updated only by the documented rules; ";

pub fn check_c05(tier: Tier, seed: u64) -> PropReport {
    let mut rep = base("C05", tier, seed, &format!("{GEN}oracle after every step, from public queries and the bank: for every denom, farm manager balance >= sum of all positions' recorded LP + sum over live farms of (funded - claimed); farm closes refund exactly the remainder to the farm owner; at the end of every history a liquidation (claim, close every open position in a generated order, wait a year, withdraw everything, close every farm) where each step must succeed and pay exactly the recorded amount. non-trivial = history with a partial close, an emergency exit while a farm is active, or a paying claim; distinct by the generated history"));
    let e = c05_engine();
    let cases = n(tier, 5000, 30_000);
    let o = drive(&e, "C05", tier, cases, seed);
    rep.push(e.name, o);
    if tier == Tier::Thorough && fuzz_enabled() {
        let o = fuzz_stage(&e, "C05", "farm_history", 30_000, seed);
        rep.push("fuzz:farm_history", o);
    }
    rep.floor("position close: partial", cases / 4);
    rep.floor("emergency exit with an active farm", cases / 20);
    rep.floor("histories where a reward denom is an LP denom", cases / 10);
    rep.floor("liquidation: positions withdrawn in full", cases);
    rep
}

pub fn check_c06(tier: Tier, seed: u64) -> PropReport {
    let mut rep = base("C06", tier, seed, &format!("{GEN}oracle on every Claim: a claim the ledger calls rightful (open position, valid until_epoch) must succeed, one it calls invalid must fail; what the bank pays equals what the farms' claimed amounts grew by; per farm the cumulative payout never exceeds min(funded, emission rate x elapsed farm epochs); the claimer never receives more than the ledger's sum over unpaid farm-epochs of floor(emission x own weight in effect / total weight in effect); no (user, farm, epoch) is paid twice. non-trivial = history with a claim that pays > 0; distinct by the generated history"));
    let e = c06_engine();
    let cases = n(tier, 6000, 50_000);
    let o = drive(&e, "C06", tier, cases, seed);
    rep.push(e.name, o);
    if tier == Tier::Thorough && fuzz_enabled() {
        let o = fuzz_stage(&e, "C06", "farm_history", 30_000, seed);
        rep.push("fuzz:farm_history", o);
    }
    rep.floor("claim: paid > 0", cases / 2);
    rep.floor("claim: back-dated until_epoch", cases / 2);
    rep
}

pub fn check_c08(tier: Tier, seed: u64) -> PropReport {
    let mut rep = base("C08", tier, seed, &format!("{GEN}oracle: a model of positions (id, owner, LP amount, open, duration, unlock time) updated only by the documented rules; after every step the positions reported for every account equal the model (nothing appears, disappears or changes otherwise); every position message is accepted exactly when the rules allow it (owner-only close/withdraw, owner or pool manager to add, create-for-other only from the pool manager, duration range, identifier free, limits) - in particular a normal withdrawal succeeds iff the position is closed and now >= close time + duration; an accepted withdrawal pays the owner exactly the recorded amount and nobody else; closes move no funds; partial closes conserve the total. non-trivial = withdrawal attempted within 1s of the unlock instant, or a partial close; distinct by the generated history"));
    let e = c08_engine();
    let cases = n(tier, 6000, 40_000);
    let o = drive(&e, "C08", tier, cases, seed);
    rep.push(e.name, o);
    if tier == Tier::Thorough && fuzz_enabled() {
        let o = fuzz_stage(&e, "C08", "farm_history", 30_000, seed);
        rep.push("fuzz:farm_history", o);
    }
    rep.floor("withdraw attempt within 1s of the unlock instant", cases / 20);
    rep.floor("position withdraw: after unlock", cases / 8);
    rep.floor("position close: partial", cases / 4);
    rep.floor("locked deposit: expanded an existing position", cases / 20);
    rep
}

pub fn check_c11(tier: Tier, seed: u64) -> PropReport {
    let mut rep = base("C11", tier, seed, &format!("{GEN}oracle: farm creation is accepted exactly when an independent predicate written from the documentation says so (live farms below the limit after auto-closing expired ones, reward >= minimum, funds exactly reward + fee with overpaid fee refunded, epochs inside the buffer, identifier free); on success the complete map of balance changes equals: creator -(reward+fee) net of refund, fee collector +fee, farm manager +reward, owners of auto-closed expired farms + their unclaimed remainder, nobody else; the farm reported afterwards has budget = reward and rate = floor(reward/epochs); expansion accepted only for the owner, before the end, in multiples of the rate, adds exactly the amount and amount/rate epochs; close accepted only for the farm owner or the contract owner and refunds exactly funded - claimed to the farm owner; after every step the reported farms equal the model and no LP token has more unexpired farms than configured. engine 2 (farm-limit): the owner raises the limit to a generated number (1-14, or 99-102; a number the contract refuses leaves the old limit in force, a number it accepts must be what Config reports and what is enforced), then generated creations on two LP tokens (named or not, from four users), closes by the farm owners and fill-ups (creations in a row until one is refused) with no time passing: a creation is accepted exactly while the LP token has fewer unexpired farms than the limit, and a fill-up must hit a refusal within limit + 3 attempts. non-trivial = farm closed (or auto-closed) after claims, or expanded after claims (engine 1); a fill-up that reached the limit (engine 2); distinct by the generated history"));
    let e = c11_engine();
    let cases = n(tier, 6000, 40_000);
    let o = drive(&e, "C11", tier, cases, seed);
    rep.push(e.name, o);
    if tier == Tier::Thorough && fuzz_enabled() {
        let o = fuzz_stage(&e, "C11", "farm_history", 30_000, seed);
        rep.push("fuzz:farm_history", o);
    }
    // the limit clause for every configured number (engine 2)
    let lim = n(tier, 600, 6000);
    let o = drive(&crate::props::c11_limit::FarmLimit, "C11", tier, lim, seed);
    rep.push("farm-limit", o);
    rep.floor("limit: filled with a limit above 10", lim / 4);
    rep.floor("limit: a limit above 100 requested", lim / 60);
    rep.floor("farm auto-closed on create", cases / 20);
    rep.floor("farm closed after claims", cases / 10);
    rep.floor("farm expand: ok", cases / 4);
    rep
}

pub fn check_c07(tier: Tier, seed: u64) -> PropReport {
    use crate::props::farm_twins::Schedules;
    let mut rep = base("C07", tier, seed, &format!("{GEN}engine 1 (histories): every successful Claim must pay, per reward denom and per farm, exactly the ledger's sum over the unpaid farm-epochs of floor(emission x own weight in effect that epoch / total weight in effect that epoch) - equality, i.e. never more and less by under one unit per farm-epoch - and the Rewards query issued immediately before must report exactly what the claim then pays (and fail iff it fails). engine 2 (schedule twins): a generated history of farms, position openings/top-ups and epoch advances (<= 25 epochs, farms never closed) is replayed into three fresh worlds that differ only in the claim schedule - every user claims every epoch / everybody claims once at the end / one generated user claims after each advance with until_epoch = now - k (k generated, clamped to the cursor) - and the per-user per-denom totals must be equal. non-trivial = history with a paying claim (engine 1); triple spanning >= 3 epochs with payouts and a weight change between two claims of the split schedule (engine 2)"));
    let e = c07_engine();
    let cases = n(tier, 6000, 50_000);
    let o = drive(&e, "C07", tier, cases, seed);
    rep.push(e.name, o);
    if tier == Tier::Thorough && fuzz_enabled() {
        let o = fuzz_stage(&e, "C07", "farm_history", 30_000, seed);
        rep.push("fuzz:farm_history", o);
    }
    let t = n(tier, 1500, 20_000);
    let o = drive(&Schedules, "C07", tier, t, seed);
    rep.push(Schedules.name(), o);
    rep.floor("claim: paid > 0", cases / 2);
    rep.floor("claim: back-dated until_epoch", cases / 2);
    rep.floor("schedule triples spanning >= 3 epochs with a weight change between claims", t / 4);
    rep
}

pub fn check_c09(tier: Tier, seed: u64) -> PropReport {
    use crate::props::farm_twins::Decay;
    let mut rep = base("C09", tier, seed, &format!("{GEN}engine 1 (histories weighted towards emergency withdrawals of open and closed positions at generated times incl. the unlock instant +-1s, with none/future/active/expired farms by the same or different owners, base penalty 0-100% changed on the way): the complete map of balance changes of an accepted emergency exit must be explained by a penalty T in [floor(amount x min(90%, base x remaining/duration x weight/amount)) - slack of the contract's 18-digit floors, floor(amount x min(90%, base x remaining/duration x m(duration)))] with m the exact parabola through (1 day,1x) (half year,5x) (year,16x): owner +amount-T, each distinct owner of a farm that has started and not expired +floor(floor(T/2)/n) when that is > 0 with the fee collector getting T-floor(T/2), otherwise the fee collector gets T; nobody else; farm manager -(sum); T <= 90%; T = 0 once unlocked; exits after unlocking pay the full amount. engine 2 (decay twins): the same generated position (amount 1..10^20, duration, optional close) exited after t1 <= t2 in two fresh worlds: penalty(t2) <= penalty(t1), and 0 at/after the unlock instant of a closed position. non-trivial = non-zero penalty (engine 1), pair with a non-zero first penalty (engine 2)"));
    let e = c09_engine();
    let cases = n(tier, 6000, 40_000);
    let o = drive(&e, "C09", tier, cases, seed);
    rep.push(e.name, o);
    if tier == Tier::Thorough && fuzz_enabled() {
        let o = fuzz_stage(&e, "C09", "farm_history", 30_000, seed);
        rep.push("fuzz:farm_history", o);
    }
    let t = n(tier, 3000, 30_000);
    let o = drive(&Decay, "C09", tier, t, seed);
    rep.push(Decay.name(), o);
    rep.floor("emergency: non-zero penalty", cases / 2);
    rep.floor("emergency: penalty shared by >= 2 farm owners", cases / 50);
    rep.floor("emergency: zero penalty", cases / 10);
    rep.floor("decay pairs with a non-zero first penalty", t / 3);
    rep.floor("decay pairs straddling the unlock instant", t / 20);
    rep
}

pub fn check_c10(tier: Tier, seed: u64) -> PropReport {
    let mut rep = base("C10", tier, seed, &format!("{GEN}histories weighted towards create / top-up in pieces / partial and full close / emergency exit with amounts from 1 unit (where the fractional multiplier rounds) to 10^21 and durations incl. the anchors +-1s. oracle after every step, for the current and the next epoch: total weight of each LP token >= sum of all users' weights in effect (from a never-wiped ledger of LpWeight readings), == while no position of that LP token was split or topped up; per operation: the weight in effect in the current epoch is unchanged (changes take effect next epoch); weight added for (amount, duration) is within [amount, 16 x amount], within one unit (+ 18-digit slack) of amount x m(duration) with m the exact parabola through the three documented anchors, and monotone pairwise against every other sample of the history; the total moves by exactly what the user's weight moved; a user whose last open position in an LP token is gone has no LpWeight entry at epochs now-1..now+2. non-trivial = history with a full exit after split positions while another user still holds weight; distinct by the generated history"));
    let e = c10_engine();
    let cases = n(tier, 6000, 50_000);
    let o = drive(&e, "C10", tier, cases, seed);
    rep.push(e.name, o);
    if tier == Tier::Thorough && fuzz_enabled() {
        let o = fuzz_stage(&e, "C10", "farm_history", 30_000, seed);
        rep.push("fuzz:farm_history", o);
    }
    rep.floor("c10: full exit after split positions while others hold weight", cases / 10);
    rep.floor("c10: weight added", cases * 4);
    rep.floor("c10: weight removed", cases);
    rep.floor("c10: user left an LP token", cases / 2);
    rep
}

pub fn dev(which: &str, tier: Tier, seed: u64) -> PropReport {
    let e = match which {
        "c05" => c05_engine(),
        "c06" => c06_engine(),
        "c07" => c07_engine(),
        "c08" => c08_engine(),
        "c09" => c09_engine(),
        "c10" => c10_engine(),
        "c11" => c11_engine(),
        _ => c20_farm_engine(),
    };
    let mut rep = PropReport::new("DEVF", tier, seed, "exploration", "dev");
    let o = drive(&e, "DEVF", tier, n(tier, 1500, 20_000), seed);
    rep.push(e.name, o);
    rep
}
