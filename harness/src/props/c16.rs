//! C16 — pool creation charges exact fees; parameters unique and immutable.
//! Engine 1: generated creation messages (valid and invalid in every documented way) against an
//! independent validity predicate. Engine 2 (poolprops::c16_hist): immutability under histories.
use std::collections::BTreeMap;

use cosmwasm_std::{coin, Coin, Decimal, Uint128};
use mantra_dex_std::fee::{Fee, PoolFee};
use mantra_dex_std::pool_manager as pm;
use proptest::prelude::*;
use serde::{Deserialize, Serialize};

use crate::framework::*;
use crate::pool::interp::*;
use crate::pool::ops::*;
use crate::world::Snapshot;

#[derive(Debug, Clone, Serialize, Deserialize)]
pub enum IdSpec {
    Auto,
    /// explicit identifier text
    Text(String),
    /// the same explicit identifier as the k-th pool created before
    SameAs(u8),
}

#[derive(Debug, Clone, Serialize, Deserialize)]
pub enum FundsSpec {
    Exact,
    /// k-th coin short by one unit
    Under(u8),
    Over(u8),
    ExtraDenom,
    Missing(u8),
    Nothing,
    /// k-th coin doubled / halved
    Double(u8),
    Half(u8),
}

#[derive(Debug, Clone, Serialize, Deserialize)]
pub struct RawCreate {
    pub user: u8,
    pub assets: Vec<u8>,
    /// None: decimals list matches; Some(n): list of length n
    pub decimals_len: Option<u8>,
    /// fee shares in 10^-9
    pub protocol: u64,
    pub swap: u64,
    pub burn: u64,
    pub extra: Vec<u64>,
    /// None = constant product
    pub amp: Option<u64>,
    pub id: IdSpec,
    pub funds: FundsSpec,
}

#[derive(Debug, Clone, Serialize, Deserialize)]
pub struct Case {
    pub cfg: PCfg,
    pub before: Vec<CreateSpec>,
    pub raw: RawCreate,
    /// change the creation fee before the attempt (amount, denom index)
    pub new_fee: Option<(u32, u8)>,
    /// the pool manager already holds coins of every denom (sent to it outside pool operations):
    /// an under-paid creation could then be completed out of the contract's own balance
    #[serde(default)]
    pub contract_has_funds: bool,
}

fn fee_val() -> impl Strategy<Value = u64> {
    prop_oneof![
        6 => 0u64..30_000_000,
        2 => 30_000_000u64..=200_000_000,
        1 => Just(200_000_000u64),
        1 => Just(200_000_001u64),
        1 => 200_000_001u64..1_000_000_000,
        1 => Just(999_999_999u64),
        1 => Just(1_000_000_000u64),
        1 => 1_000_000_000u64..3_000_000_000,
    ]
}

fn id_text() -> impl Strategy<Value = String> {
    prop_oneof![
        4 => "[a-zA-Z0-9]{1,12}",
        2 => "[a-zA-Z0-9./]{1,20}",
        1 => Just(String::new()),
        1 => "[a-z]{38}",
        1 => "[a-z]{39}",
        1 => "[a-z]{40}",
        1 => "[a-z]{41}",
        1 => "[a-z]{60}",
        2 => "[a-z]{1,5}[-_ !@é][a-z]{0,5}",
        1 => Just("p.1".to_string()),
    ]
}

pub fn case_strat() -> impl Strategy<Value = Case> {
    (
        cfg_strat(),
        proptest::collection::vec(create_strat(), 0..3),
        (
            0u8..4,
            prop_oneof![
                // distinct by construction
                8 => (Just(vec![0u8, 1, 2, 3, 4, 5]).prop_shuffle(), 2usize..=4).prop_map(|(v, n)| v[..n].to_vec()),
                2 => proptest::collection::vec(0u8..6, 0..=6),
            ],
            proptest::option::weighted(0.06, 0u8..6),
            prop_oneof![12 => (0u64..10_000_000), 1 => fee_val()],
            prop_oneof![12 => (0u64..10_000_000), 1 => fee_val()],
            prop_oneof![12 => (0u64..10_000_000), 1 => fee_val()],
            proptest::collection::vec(prop_oneof![12 => (0u64..10_000_000), 1 => fee_val()], 0..4),
            proptest::option::weighted(0.6, prop_oneof![1 => Just(0u64), 9 => amp_strat()]),
            prop_oneof![6 => Just(IdSpec::Auto), 5 => id_text().prop_map(IdSpec::Text), 1 => (0u8..3).prop_map(IdSpec::SameAs)],
            prop_oneof![
                16 => Just(FundsSpec::Exact),
                2 => (0u8..3).prop_map(FundsSpec::Under),
                2 => (0u8..3).prop_map(FundsSpec::Over),
                1 => Just(FundsSpec::ExtraDenom),
                1 => (0u8..3).prop_map(FundsSpec::Missing),
                1 => Just(FundsSpec::Nothing),
                1 => (0u8..3).prop_map(FundsSpec::Double),
                1 => (0u8..3).prop_map(FundsSpec::Half),
            ],
        ),
        proptest::option::weighted(0.35, (prop_oneof![1 => Just(0u32), 4 => 0u32..5000], 0u8..6)),
        proptest::bool::weighted(0.5),
    )
        .prop_map(|(cfg, before, (user, assets, decimals_len, protocol, swap, burn, extra, amp, id, funds), new_fee, contract_has_funds)| Case {
            cfg,
            before,
            raw: {
                let mut assets = assets;
                if amp.is_none() && assets.len() > 2 && user % 4 != 3 {
                    assets.truncate(2);
                }
                RawCreate { user, assets, decimals_len, protocol, swap, burn, extra, amp, id, funds }
            },
            new_fee,
            contract_has_funds,
        })
}

fn fee_of(v: u64) -> Fee {
    Fee { share: Decimal::new(Uint128::new(v as u128 * 1_000_000_000)) }
}

pub struct Creation;

impl Engine for Creation {
    type Case = Case;
    fn name(&self) -> &'static str {
        "pool-creation-validity"
    }
    fn strategy(&self, _t: Tier) -> BoxedStrategy<Case> {
        case_strat().boxed()
    }
    fn run(&self, c: &Case, st: &mut Stats) -> Result<(), String> {
        let mut sim = Sim::new(&c.cfg);
        let mut explicit_ids: Vec<String> = vec![];
        for spec in c.before.iter() {
            let s = sim.step(&POp::Create(spec.clone()));
            if s.ok() {
                if let Kinded::Create { identifier: Some(i), .. } = &s.kind {
                    explicit_ids.push(i.clone());
                }
            }
        }
        if let Some((amount, denom)) = c.new_fee {
            sim.step(&POp::SetCreationFee { amount, denom });
        }
        if c.contract_has_funds {
            let donor = sim.user(3);
            let pmaddr = sim.w.pool_manager.clone();
            let coins: Vec<Coin> = BASE_DENOMS.iter().map(|d| coin(1_000_000, *d)).collect();
            let mut coins = coins;
            coins.sort_by(|a, b| a.denom.cmp(&b.denom));
            if sim.w.bank_send(&donor, &pmaddr, &coins).is_ok() {
                st.bump("creation attempts while the pool manager holds coins of its own");
            }
        }
        let r = &c.raw;
        let sender = sim.user(r.user);
        let denoms: Vec<String> = r.assets.iter().map(|a| BASE_DENOMS[*a as usize % 6].to_string()).collect();
        let mut decimals: Vec<u8> = r.assets.iter().map(|a| sim.w.cfg.denoms[*a as usize % 6].1).collect();
        if let Some(n) = r.decimals_len {
            decimals.resize(n as usize, 6);
        }
        let identifier: Option<String> = match &r.id {
            IdSpec::Auto => None,
            IdSpec::Text(t) => Some(t.clone()),
            IdSpec::SameAs(k) => {
                if explicit_ids.is_empty() {
                    Some("fresh".to_string())
                } else {
                    Some(explicit_ids[*k as usize % explicit_ids.len()].clone())
                }
            }
        };
        let pool_fees = PoolFee { protocol_fee: fee_of(r.protocol), swap_fee: fee_of(r.swap), burn_fee: fee_of(r.burn), extra_fees: r.extra.iter().map(|e| fee_of(*e)).collect() };
        // funds
        let exact = sim.w.creation_funds(&sim.current_creation_fee);
        let mut funds: Vec<Coin> = exact.clone();
        match &r.funds {
            FundsSpec::Exact => {}
            FundsSpec::Under(k) => {
                if !funds.is_empty() {
                    let i = *k as usize % funds.len();
                    funds[i].amount -= Uint128::one();
                    funds.retain(|c| !c.amount.is_zero());
                }
            }
            FundsSpec::Over(k) => {
                if !funds.is_empty() {
                    let i = *k as usize % funds.len();
                    funds[i].amount += Uint128::one();
                }
            }
            FundsSpec::ExtraDenom => {
                let d = ["ubtc", "uweth", "uusdt", "uusdc", "uusd", "uom"].iter().find(|d| !funds.iter().any(|c| c.denom == **d)).unwrap();
                funds.push(coin(5, *d));
                funds.sort_by(|a, b| a.denom.cmp(&b.denom));
            }
            FundsSpec::Missing(k) => {
                if !funds.is_empty() {
                    let i = *k as usize % funds.len();
                    funds.remove(i);
                }
            }
            FundsSpec::Nothing => funds.clear(),
            FundsSpec::Double(k) => {
                if !funds.is_empty() {
                    let i = *k as usize % funds.len();
                    funds[i].amount = funds[i].amount + funds[i].amount;
                }
            }
            FundsSpec::Half(k) => {
                if !funds.is_empty() {
                    let i = *k as usize % funds.len();
                    funds[i].amount = Uint128::new(funds[i].amount.u128() / 2);
                    funds.retain(|c| !c.amount.is_zero());
                }
            }
        }
        // ---- the independent validity predicate, clause by clause
        let n = denoms.len();
        let distinct = {
            let mut d = denoms.clone();
            d.sort();
            d.dedup();
            d.len() == n
        };
        let count_ok = match r.amp {
            None => n == 2,
            Some(_) => (2..=4).contains(&n),
        };
        let clauses: Vec<(&str, bool)> = vec![
            ("asset count", count_ok),
            ("distinct assets", distinct || n < 2),
            ("decimals match assets", decimals.len() == n),
            ("amplification > 0", r.amp.map(|a| a > 0).unwrap_or(true)),
            ("each fee < 100%", [r.protocol, r.swap, r.burn].iter().chain(r.extra.iter()).all(|f| *f < 1_000_000_000)),
            ("total fees <= 20%", r.protocol as u128 + r.swap as u128 + r.burn as u128 + r.extra.iter().map(|x| *x as u128).sum::<u128>() <= 200_000_000),
            (
                "well-formed identifier",
                identifier.as_ref().map(|i| i.len() + 2 <= 41 && i.chars().all(|ch| ch.is_ascii_alphanumeric() || ch == '/' || ch == '.')).unwrap_or(true),
            ),
            ("identifier unused", identifier.as_ref().map(|i| !explicit_ids.contains(i)).unwrap_or(true)),
            ("exact funds", {
                let mut a = funds.clone();
                a.sort_by(|x, y| x.denom.cmp(&y.denom));
                a == exact
            }),
        ];
        let failing: Vec<&str> = clauses.iter().filter(|(_, ok)| !*ok).map(|(n, _)| *n).collect();
        let valid = failing.is_empty();
        let obs0 = Obs::take(&sim.w);
        let pre = Snapshot::take(&sim.w);
        let msg = pm::ExecuteMsg::CreatePool {
            asset_denoms: denoms.clone(),
            asset_decimals: decimals.clone(),
            pool_fees: pool_fees.clone(),
            pool_type: match r.amp {
                None => pm::PoolType::ConstantProduct,
                Some(a) => pm::PoolType::StableSwap { amp: a },
            },
            pool_identifier: identifier.clone(),
        };
        let res = sim.w.pm_exec(&sender, &msg, &funds);
        let post = Snapshot::take(&sim.w);
        let ok = res.is_ok();
        let what = format!(
            "create pool by user{} assets {:?} decimals {:?} fees ({},{},{},{:?})e-9 amp {:?} identifier {:?} funds {:?} (required {:?})",
            r.user,
            denoms,
            decimals,
            r.protocol,
            r.swap,
            r.burn,
            r.extra,
            r.amp,
            identifier,
            funds.iter().map(|c| c.to_string()).collect::<Vec<_>>(),
            exact.iter().map(|c| c.to_string()).collect::<Vec<_>>()
        );
        if ok != valid {
            return Err(format!(
                "[C16] {what}: accepted={ok} but the documented rules say {valid} (failing clauses: {:?}); error: {:?}",
                failing,
                res.err().map(|e| e.chars().take(120).collect::<String>())
            ));
        }
        if !ok {
            if pre != post {
                return Err(format!("[C16] {what}: rejected but left a trace: {}", pre.diff(&post).join("; ")));
            }
            st.bump(&format!("rejected: {} failing clause(s)", failing.len().min(3)));
            for f in failing.iter() {
                st.bump(&format!("rejected for: {f}"));
            }
            if failing.len() == 1 {
                st.bump("rejected for exactly one clause");
                st.mark();
            }
            return Ok(());
        }
        st.bump("created");
        st.mark();
        // exact fee routing: creator pays creation fee + token-factory fees, the creation fee reaches
        // the fee collector, the token-factory fees are consumed, the pool manager keeps nothing
        let mut expect: BTreeMap<(String, String), i128> = BTreeMap::new();
        let sl = format!("user{}", r.user as usize % 4);
        for cn in exact.iter() {
            let e = expect.entry((sl.clone(), cn.denom.clone())).or_insert(0);
            *e -= cn.amount.u128() as i128;
        }
        let cf = sim.current_creation_fee.clone();
        if !cf.amount.is_zero() {
            *expect.entry(("fee_collector".into(), cf.denom.clone())).or_insert(0) += cf.amount.u128() as i128;
        }
        expect.retain(|_, v| *v != 0);
        let mut actual = BTreeMap::new();
        let keys: std::collections::BTreeSet<_> = pre.balances.keys().chain(post.balances.keys()).cloned().collect();
        for k in keys {
            let a = pre.balances.get(&k).copied().unwrap_or(0) as i128;
            let b = post.balances.get(&k).copied().unwrap_or(0) as i128;
            if a != b {
                actual.insert(k, b - a);
            }
        }
        if actual != expect {
            return Err(format!("[C16] {what}: balances changed by {:?}; creation takes exactly the creation fee (to the fee collector) plus the token-factory fees and keeps nothing: {:?}", actual, expect));
        }
        // the new pool: parameters as given, everything enabled, empty, unique identifier and LP denom
        let obs1 = Obs::take(&sim.w);
        let new: Vec<&String> = obs1.pools.keys().filter(|k| !obs0.pools.contains_key(*k)).collect();
        if new.len() != 1 || obs1.pools.len() != obs0.pools.len() + 1 {
            return Err(format!("[C16] {what}: accepted but the set of pools went from {:?} to {:?}", obs0.pool_ids(), obs1.pool_ids()));
        }
        let p = &obs1.pools[new[0]];
        let want_id = match &identifier {
            Some(i) => format!("o.{i}"),
            None => p.id.clone(),
        };
        if p.id != want_id || (identifier.is_none() && !p.id.starts_with("p.")) {
            return Err(format!("[C16] {what}: pool stored as {}", p.id));
        }
        let info = &obs1.infos[new[0]];
        if p.denoms != denoms || p.decimals != decimals || info.pool_fees != pool_fees || p.reserves.iter().any(|r| *r != 0) || p.supply != 0 {
            return Err(format!("[C16] {what}: stored pool differs from the request: {:?}", info));
        }
        if !(p.swaps_enabled && p.deposits_enabled && p.withdrawals_enabled) {
            return Err(format!("[C16] {what}: a new pool must start with every operation enabled"));
        }
        for (id, q) in obs0.pools.iter() {
            if q.lp_denom == p.lp_denom || *id == p.id {
                return Err(format!("[C16] {what}: identifier / LP denom collides with pool {id}"));
            }
            if obs1.pools.get(id) != Some(q) {
                return Err(format!("[C16] {what}: creating a pool changed pool {id}"));
            }
        }
        Ok(())
    }
}

pub fn check(tier: Tier, seed: u64) -> PropReport {
    let mut rep = PropReport::new(
        "C16",
        tier,
        seed,
        "exploration",
        "engine 1: generated CreatePool messages after 0-2 earlier pools and an optional change of the creation fee: asset lists of 0-6 assets with duplicates, decimals lists of matching or other length, every fee from 0 to above 100% with totals around the 20% cap, amplification 0 / positive / none, identifiers (none, short, with '/' and '.', empty, 38-41 and 60 characters, illegal characters, re-used, shaped like generated ones), funds (exact, one coin short/over by one unit, extra denom, missing coin, nothing) under token-factory fee lists that may share the creation fee's denom; oracle: accepted iff every clause of an independent validity predicate written from the property holds; accepted => creator pays exactly creation fee + token-factory fees, the fee collector receives exactly the creation fee, the pool manager's balances are unchanged, exactly one new pool exists with the requested parameters, zero reserves, all switches on, identifier o.<id> or p.<n>, LP denom unique, other pools untouched; rejected => complete snapshot (balances, supplies, raw storage of all four contracts) unchanged. engine 2: generated pool histories (creations, deposits, swaps, routes, toggles, config changes, invalid messages): after every step every earlier pool still exists with identical assets, decimals, type, fees, LP denom, identifier; LP denoms pairwise distinct. non-trivial = creation rejected for exactly one clause, or accepted (engine 1); history with >= 1 swap, >= 1 withdrawal, >= 2 pools sharing a denom (engine 2)",
    );
    rep.assumptions = vec![
        "contracts run natively inside cw-multi-test with mantra-common-testing's token-factory mock (create-denom burns the configured fee from the caller; an empty fee list is not supported by the mock)".into(),
    ];
    let cases = match tier {
        Tier::Quick => 20_000,
        Tier::Thorough => 200_000,
    };
    let o = drive(&Creation, "C16", tier, cases, seed);
    rep.push(Creation.name(), o);
    let e = crate::props::poolprops::c16_hist();
    let h = match tier {
        Tier::Quick => 4000,
        Tier::Thorough => 30_000,
    };
    let o = drive(&e, "C16", tier, h, seed);
    rep.push(e.name, o);
    rep.floor("created", cases / 5);
    rep.floor("rejected for exactly one clause", cases / 5);
    for cl in ["asset count", "distinct assets", "decimals match assets", "amplification > 0", "each fee < 100%", "total fees <= 20%", "well-formed identifier", "identifier unused", "exact funds"] {
        rep.floor(&format!("rejected for: {cl}"), cases / 200);
    }
    rep
}
