//! C17 — per-pool feature switches stop exactly the switched operation on every path.
//! Engine T: world A = prefix, toggle, probe; world B = prefix, probe (same generated values).
use std::collections::BTreeMap;

use mantra_dex_std::pool_manager as pm;
use proptest::prelude::*;
use serde::{Deserialize, Serialize};

use crate::framework::*;
use crate::pool::interp::*;
use crate::pool::ops::*;
use crate::poolview::PoolView;

#[derive(Debug, Clone, Serialize, Deserialize)]
pub struct Case {
    pub cfg: PCfg,
    pub creates: Vec<(CreateSpec, POp)>,
    pub prefix: Vec<POp>,
    /// which pool gets switched
    pub pool: u16,
    /// toggle messages applied in order; each sets only the switches it names (true = enabled)
    pub toggles: Vec<(Option<bool>, Option<bool>, Option<bool>)>,
    /// aim the probe at the switched pool (routes choose their own pools)
    pub aim: bool,
    pub probe: POp,
}

fn probe_strat() -> impl Strategy<Value = POp> {
    prop_oneof![
        3 => swap_strat(),
        4 => route_strat(false),
        3 => single_strat(),
        3 => provide_strat(),
        3 => withdraw_strat(),
    ]
}

pub fn case_strat() -> impl Strategy<Value = Case> {
    (
        cfg_strat(),
        proptest::collection::vec((create_strat(), provide_strat()), 2..=4),
        proptest::collection::vec(
            op_strat(Weights { roundtrip: 0, create: 0, provide: 6, single: 2, withdraw: 2, swap: 5, route: 2, misc: 0, bad: 0 }, false),
            0..8,
        ),
        any::<u16>(),
        proptest::collection::vec((proptest::option::of(any::<bool>()), proptest::option::of(any::<bool>()), proptest::option::of(any::<bool>())), 1..4),
        proptest::bool::weighted(0.7),
        probe_strat(),
    )
        .prop_map(|(cfg, creates, prefix, pool, toggles, aim, probe)| Case { cfg, creates, prefix, pool, toggles, aim, probe })
}

pub struct Switches;

fn run_prefix(c: &Case) -> Sim {
    let mut sim = Sim::new(&c.cfg);
    for (cs, first) in c.creates.iter() {
        let s = sim.step(&POp::Create(cs.clone()));
        if s.ok() {
            if let Some(id) = s.post.pools.keys().find(|k| !s.pre.pools.contains_key(*k)).cloned() {
                sim.step_targeted(first, Some(&id));
            }
        }
    }
    for op in c.prefix.iter() {
        // toggles and config changes are not part of the prefix
        if matches!(op, POp::Toggle { .. } | POp::SetFeeCollector { .. } | POp::SetCreationFee { .. }) {
            continue;
        }
        sim.step(op);
    }
    sim
}

fn set_switches(sim: &mut Sim, pool: &str, s: bool, d: bool, w: bool) -> Result<(), String> {
    set_switches_opt(sim, pool, Some(s), Some(d), Some(w))
}

fn set_switches_opt(sim: &mut Sim, pool: &str, s: Option<bool>, d: Option<bool>, w: Option<bool>) -> Result<(), String> {
    let owner = sim.w.owner.clone();
    sim.w
        .pm_exec(
            &owner,
            &pm::ExecuteMsg::UpdateConfig {
                fee_collector_addr: None,
                farm_manager_addr: None,
                pool_creation_fee: None,
                feature_toggle: Some(pm::FeatureToggle { pool_identifier: pool.to_string(), withdrawals_enabled: w, deposits_enabled: d, swaps_enabled: s }),
            },
            &[],
        )
        .map(|_| ())
        .map_err(|e| format!("[C17] the owner could not set the switches of {pool}: {e}"))?;
    sim.last_obs = None;
    Ok(())
}

/// which operations on which pools the (resolved) probe performs
fn uses(step: &Step) -> Vec<(String, &'static str)> {
    match &step.kind {
        Kinded::Swap { pool, .. } => vec![(pool.clone(), "swap")],
        Kinded::Route { hops, .. } => hops.iter().map(|h| (h.pool.clone(), "swap")).collect(),
        Kinded::Provide { pool, single: true, deposits, .. } if deposits.len() == 1 => vec![(pool.clone(), "swap"), (pool.clone(), "deposit")],
        Kinded::Provide { pool, .. } => vec![(pool.clone(), "deposit")],
        Kinded::Withdraw { pool, .. } => vec![(pool.clone(), "withdraw")],
        _ => vec![],
    }
}

fn path_label(step: &Step, target: &str) -> String {
    match &step.kind {
        Kinded::Swap { .. } => "direct swap".into(),
        Kinded::Route { hops, .. } => {
            let pos = hops.iter().position(|h| h.pool == target);
            match pos {
                Some(0) if hops.len() == 1 => "route: only hop".into(),
                Some(0) => "route: first hop".into(),
                Some(p) if p + 1 == hops.len() => "route: last hop".into(),
                Some(_) => "route: middle hop".into(),
                None => "route elsewhere".into(),
            }
        }
        Kinded::Provide { single: true, deposits, lock, .. } if deposits.len() == 1 => if lock.is_some() { "locked single-asset deposit".into() } else { "single-asset deposit".into() },
        Kinded::Provide { lock: Some(_), .. } => "locked deposit".into(),
        Kinded::Provide { .. } => "deposit".into(),
        Kinded::Withdraw { .. } => "withdrawal".into(),
        _ => "other".into(),
    }
}

/// observable outcome of a step, with the status flags masked
fn outcome(step: &Step) -> (bool, BTreeMap<(String, String), u128>, BTreeMap<String, u128>, Vec<PoolView>) {
    let pools: Vec<PoolView> = step
        .post
        .pools
        .values()
        .map(|p| {
            let mut q = p.clone();
            q.swaps_enabled = true;
            q.deposits_enabled = true;
            q.withdrawals_enabled = true;
            q
        })
        .collect();
    (step.ok(), step.post.snap.balances.clone(), step.post.snap.supply.clone(), pools)
}

impl Engine for Switches {
    type Case = Case;
    fn name(&self) -> &'static str {
        "feature-switch-twins"
    }
    fn strategy(&self, _t: Tier) -> BoxedStrategy<Case> {
        case_strat().boxed()
    }
    fn run(&self, c: &Case, st: &mut Stats) -> Result<(), String> {
        let mut b = run_prefix(c);
        let mut a = run_prefix(c);
        let ids = b.obs().pool_ids();
        if ids.is_empty() {
            return Ok(());
        }
        // new pools start with everything enabled
        for p in b.obs().pools.values() {
            if !(p.swaps_enabled && p.deposits_enabled && p.withdrawals_enabled) {
                return Err(format!("[C17] pool {} does not have every operation enabled although nothing was switched", p.id));
            }
        }
        let target = ids[pick(c.pool, ids.len())].clone();
        // each toggle message changes exactly the switches it names, on exactly this pool
        let (mut ms, mut md, mut mw) = (true, true, true);
        for (s, d, w) in c.toggles.iter() {
            let others_before: Vec<PoolView> = a.obs().pools.values().filter(|p| p.id != target).cloned().collect();
            set_switches_opt(&mut a, &target, *s, *d, *w)?;
            ms = s.unwrap_or(ms);
            md = d.unwrap_or(md);
            mw = w.unwrap_or(mw);
            let oa = a.obs();
            let p = &oa.pools[&target];
            if (p.swaps_enabled, p.deposits_enabled, p.withdrawals_enabled) != (ms, md, mw) {
                return Err(format!(
                    "[C17] after toggling {:?} on {target} its switches read (swaps, deposits, withdrawals) = {:?}, expected {:?}",
                    (s, d, w),
                    (p.swaps_enabled, p.deposits_enabled, p.withdrawals_enabled),
                    (ms, md, mw)
                ));
            }
            let others_after: Vec<PoolView> = oa.pools.values().filter(|p| p.id != target).cloned().collect();
            if others_before != others_after {
                return Err(format!("[C17] toggling {target} changed another pool"));
            }
        }
        let c_swaps = ms;
        let c_deposits = md;
        let c_withdrawals = mw;
        let aimed = c.aim && !matches!(c.probe, POp::Route { .. });
        let tgt = if aimed { Some(target.as_str()) } else { None };
        let sb = b.step_targeted(&c.probe, tgt);
        let sa = a.step_targeted(&c.probe, tgt);
        if format!("{:?}", sa.kind) != format!("{:?}", sb.kind) {
            return Err(format!("[harness] the probe resolved differently in the two worlds: {:?} vs {:?}", sa.kind, sb.kind));
        }
        let used = uses(&sb);
        let blocked: Vec<&'static str> = used
            .iter()
            .filter(|(p, op)| *p == target && ((*op == "swap" && !c_swaps) || (*op == "deposit" && !c_deposits) || (*op == "withdraw" && !c_withdrawals)))
            .map(|(_, op)| *op)
            .collect();
        let combo = format!("switches s={} d={} w={}", c_swaps as u8, c_deposits as u8, c_withdrawals as u8);
        let touches_target = used.iter().any(|(p, _)| *p == target);
        let path = if touches_target { path_label(&sb, &target) } else { "operation on another pool".to_string() };
        let what = format!("{combo} on {target}; probe {}", sb.describe());
        if !blocked.is_empty() {
            // the switched-off operation is performed by this probe: it must be refused, without trace
            if sa.ok() {
                return Err(format!("[C17] {what}: executed although {:?} of {target} is switched off (path: {path})", blocked));
            }
            if sa.pre.snap != sa.post.snap {
                return Err(format!("[C17] {what}: refused but left a trace: {}", sa.pre.snap.diff(&sa.post.snap).join("; ")));
            }
            st.bump(&format!("blocked via {path}"));
            st.bump("blocked probes");
            if path != "direct swap" && path != "deposit" && path != "withdrawal" {
                st.bump("blocked through an indirect path");
                st.mark();
            }
            // re-enabling restores normal behaviour: the same probe now does exactly what it does in B
            set_switches(&mut a, &target, true, true, true)?;
            let sa2 = a.step_targeted(&c.probe, tgt);
            if outcome(&sa2) != outcome(&sb) {
                return Err(format!("[C17] {what}: after re-enabling, the probe behaves differently from the world where nothing was ever switched: {} vs {}", sa2.describe(), sb.describe()));
            }
            st.bump("re-enabled and compared");
        } else {
            // everything this probe does is still enabled: identical behaviour
            if outcome(&sa) != outcome(&sb) {
                let (oa, ob) = (outcome(&sa), outcome(&sb));
                return Err(format!(
                    "[C17] {what}: nothing this probe does is switched off, yet it behaves differently: with switches {} / without {} (balances equal: {}, pools equal: {})",
                    sa.describe(),
                    sb.describe(),
                    oa.1 == ob.1,
                    oa.3 == ob.3
                ));
            }
            st.bump(&format!("unaffected: {path}"));
            st.bump("unaffected probes");
            if touches_target && sb.ok() {
                st.mark();
            }
        }
        st.bump(&combo);
        Ok(())
    }
}

pub fn check(tier: Tier, seed: u64) -> PropReport {
    let mut rep = PropReport::new(
        "C17",
        tier,
        seed,
        "exploration",
        "cases = world configuration x 2-4 funded pools sharing denoms x 0-7 generated prefix operations x (target pool, 1-3 toggle messages each naming any subset of the three switches, reaching all 8 combinations) x one probe (direct swap, route of 1-5 hops that may pass through the target first/middle/last, single-asset deposit, plain or locked deposit, withdrawal, on any pool); the same generated values are replayed into two fresh worlds, A with the switches set by the owner and B without; oracle: if the probe performs a switched-off operation on the target by any path (single-asset deposits need swaps and deposits) A must refuse it leaving the complete snapshot unchanged, and after re-enabling everything the same probe must behave exactly as in B; otherwise A's outcome, all balances, supplies and pools (status flags masked) equal B's; pools report all switches on before any toggle. non-trivial = probe blocked through an indirect path (route hop, internal swap, locked deposit), or an unaffected probe that executed on the target pool; distinct by the generated case",
    );
    rep.assumptions = vec!["contracts run natively inside cw-multi-test; both worlds are rebuilt from the same generated values (the interpreter is deterministic)".into()];
    let cases = match tier {
        Tier::Quick => 10_000,
        Tier::Thorough => 100_000,
    };
    let o = drive(&Switches, "C17", tier, cases, seed);
    rep.push(Switches.name(), o);
    rep.floor("blocked through an indirect path", cases / 20);
    rep.floor("blocked probes", cases / 6);
    rep.floor("unaffected probes", cases / 6);
    rep.floor("re-enabled and compared", cases / 6);
    for combo in 0..8u8 {
        rep.floor(&format!("switches s={} d={} w={}", combo & 1, (combo >> 1) & 1, (combo >> 2) & 1), cases / 100);
    }
    for path in ["direct swap", "route: first hop", "route: middle hop", "route: last hop", "single-asset deposit", "deposit", "locked deposit", "withdrawal"] {
        rep.floor(&format!("blocked via {path}"), 5);
    }
    rep
}
