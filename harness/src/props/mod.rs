pub mod c18;

use crate::framework::*;
use serde_json::Value;

pub fn run(prop: &str, tier: Tier, seed: u64) -> Option<PropReport> {
    Some(match prop {
        "C18" => c18::check(tier, seed),
        _ => return None,
    })
}

/// replay one engine on a saved case
fn replay_engine(engine: &str, case: &Value) -> Option<Result<Result<(), String>, String>> {
    Some(match engine {
        "epoch-arith" => replay_case(&c18::C18, case),
        _ => return None,
    })
}

/// `--replay FILE`: exit 1 + VIOLATION line if the saved case still violates the property
pub fn replay(prop: &str, path: &str) -> i32 {
    let text = match std::fs::read_to_string(path) {
        Ok(t) => t,
        Err(e) => {
            eprintln!("cannot read {path}: {e}");
            return 2;
        }
    };
    let v: Value = match serde_json::from_str(&text) {
        Ok(v) => v,
        Err(e) => {
            eprintln!("bad replay file {path}: {e}");
            return 2;
        }
    };
    let engine = v["engine"].as_str().unwrap_or("");
    match replay_engine(engine, &v["case"]) {
        None => {
            eprintln!("unknown engine '{engine}' in {path}");
            2
        }
        Some(Err(e)) => {
            eprintln!("{e}");
            2
        }
        Some(Ok(Ok(()))) => {
            println!("replay {path}: property {prop} holds on this case");
            0
        }
        Some(Ok(Err(m))) => {
            println!("VIOLATION property={prop} replay={path}");
            println!("  engine={engine} message={m}");
            1
        }
    }
}
