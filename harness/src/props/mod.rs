pub mod c01;
pub mod c11_limit;
pub mod c13;
pub mod c14;
pub mod c15;
pub mod c16;
pub mod c17;
pub mod c18;
pub mod c19;
pub mod c20;
pub mod farm_hist;
pub mod farmprops;
pub mod farm_twins;
pub mod numeric;
pub mod pool_hist;
pub mod poolprops;

use crate::framework::*;
use serde_json::Value;

pub fn run(prop: &str, tier: Tier, seed: u64) -> Option<PropReport> {
    let mut rep = run_inner(prop, tier, seed)?;
    // replay tier: committed regression cases (witnesses of fixed and open findings, boundaries)
    for path in corpus_files(prop) {
        let text = std::fs::read_to_string(&path).unwrap_or_default();
        let v: Value = serde_json::from_str(&text).unwrap_or(Value::Null);
        let engine = v["engine"].as_str().unwrap_or("").to_string();
        match replay_engine(&engine, &v["case"]) {
            Some(Ok(Ok(()))) => rep.corpus_ok += 1,
            Some(Ok(Err(m))) => rep.corpus_failures.push((path.display().to_string(), m)),
            Some(Err(e)) => rep.harness_errors.push(format!("corpus file {}: {e}", path.display())),
            None => rep.harness_errors.push(format!("corpus file {}: unknown engine {engine}", path.display())),
        }
    }
    Some(rep)
}

fn run_inner(prop: &str, tier: Tier, seed: u64) -> Option<PropReport> {
    Some(match prop {
        "C01" => c01::check(tier, seed),
        "C02" => poolprops::check_c02(tier, seed),
        "C03" => poolprops::check_c03(tier, seed),
        "C04" => poolprops::check_c04(tier, seed),
        "C12" => poolprops::check_c12(tier, seed),
        "C13" => c13::check(tier, seed),
        "C14" => c14::check(tier, seed),
        "C15" => c15::check(tier, seed),
        "C16" => c16::check(tier, seed),
        "C17" => c17::check(tier, seed),
        "C18" => c18::check(tier, seed),
        "C19" => c19::check(tier, seed),
        "C20" => c20::check(tier, seed),
        "SURVEY19" => c19::check_survey(tier, seed),
        "DEVF" => farm_hist::dev(tier, seed),
        p if p.starts_with("DEVF") => farmprops::dev(&p[4..].to_lowercase(), tier, seed),
        "C05" => farmprops::check_c05(tier, seed),
        "C06" => farmprops::check_c06(tier, seed),
        "C07" => farmprops::check_c07(tier, seed),
        "C08" => farmprops::check_c08(tier, seed),
        "C09" => farmprops::check_c09(tier, seed),
        "C10" => farmprops::check_c10(tier, seed),
        "C11" => farmprops::check_c11(tier, seed),
        p if p.starts_with("DEV") => poolprops::check_dev(tier, seed, &p[3..].to_lowercase()),
        _ => return None,
    })
}

/// replay one engine on a saved case
fn replay_engine(engine: &str, case: &Value) -> Option<Result<Result<(), String>, String>> {
    Some(match engine {
        "epoch-arith" => replay_case(&c18::C18, case),
        "price-protections" => replay_case(&c13::Protections, case),
        "fault-walk" => replay_case(&c20::FaultWalk, case),
        "frozen-refund-twins" => replay_case(&c20::FrozenRefund, case),
        "single-asset-twins" => replay_case(&c14::Twin, case),
        "single-asset-fault-walk" => replay_case(&c14::Faults, case),
        "feature-switch-twins" => replay_case(&c17::Switches, case),
        "auth-matrix" => replay_case(&c15::Matrix, case),
        "pool-creation-validity" => replay_case(&c16::Creation, case),
        "stableswap-quote-vs-exact" => replay_case(&c19::C19Swap { survey: false }, case),
        "stableswap-D-vs-exact" => replay_case(&c19::C19D { survey: false }, case),
        "pool-history-backing" => replay_case(&c01::engine(), case),
        "fuzz-pool-backing" | "fuzz-pool-history" => replay_case(&crate::fuzzglue::pool_engine(), case),
        "fuzz-farm-custody-rewards" | "fuzz-farm-history" => replay_case(&crate::fuzzglue::farm_engine(), case),
        "pool-history-lp-value" => replay_case(&poolprops::c02_hist(), case),
        "pool-history-swap-value" => replay_case(&poolprops::c03_hist(), case),
        "pool-history-swap-conservation" => replay_case(&poolprops::c04_hist(), case),
        "pool-history-quotes" => replay_case(&poolprops::c12_hist(), case),
        "pool-history-pricing" => replay_case(&poolprops::c19_hist(), case),
        "pool-history-immutability" => replay_case(&poolprops::c16_hist(), case),
        "pool-history-rejections" => replay_case(&poolprops::c20_hist(), case),
        "pool-history-all" => replay_case(&poolprops::all_hist(), case),
        "farm-history-custody" => replay_case(&farmprops::c05_engine(), case),
        "farm-history-emission-bound" => replay_case(&farmprops::c06_engine(), case),
        "farm-history-exact-shares" => replay_case(&farmprops::c07_engine(), case),
        "farm-history-positions" => replay_case(&farmprops::c08_engine(), case),
        "farm-history-emergency" => replay_case(&farmprops::c09_engine(), case),
        "farm-history-weights" => replay_case(&farmprops::c10_engine(), case),
        "farm-history-lifecycle" => replay_case(&farmprops::c11_engine(), case),
        "farm-limit" => replay_case(&c11_limit::FarmLimit, case),
        "farm-history-rejections" => replay_case(&farmprops::c20_farm_engine(), case),
        "claim-schedule-twins" => replay_case(&farm_twins::Schedules, case),
        "emergency-decay-twins" => replay_case(&farm_twins::Decay, case),
        "farm-history-all" => replay_case(&farm_hist::FarmHist { name: "farm-history-all", mon: farm_hist::all_mon(), weights: crate::farm::ops::FWeights::default(), max_ops_quick: 40, max_ops_thorough: 80, liquidate: true }, case),
        "cp-swap-numeric" => replay_case(&numeric::CpSwap, case),
        "cp-reverse-quote" => replay_case(&numeric::CpReverse, case),
        "ss-swap-value-numeric" => replay_case(&numeric::SsSwapValue, case),
        "ss-mint-numeric" => replay_case(&numeric::SsMint, case),
        _ => return None,
    })
}

/// `--replay FILE`: exit 1 + VIOLATION line if the saved case still violates the property
pub fn replay(prop: &str, path: &str) -> i32 {
    let text = match std::fs::read_to_string(path) {
        Ok(t) => t,
        Err(e) => {
            eprintln!("cannot read {path}: {e}");
            return 2;
        }
    };
    let v: Value = match serde_json::from_str(&text) {
        Ok(v) => v,
        Err(e) => {
            eprintln!("bad replay file {path}: {e}");
            return 2;
        }
    };
    let engine = v["engine"].as_str().unwrap_or("");
    match replay_engine(engine, &v["case"]) {
        None => {
            eprintln!("unknown engine '{engine}' in {path}");
            2
        }
        Some(Err(e)) => {
            eprintln!("{e}");
            2
        }
        Some(Ok(Ok(()))) => {
            println!("replay {path}: property {prop} holds on this case");
            0
        }
        Some(Ok(Err(m))) => {
            println!("VIOLATION property={prop} replay={path}");
            println!("  engine={engine} message={m}");
            1
        }
    }
}
