//! C19 — stableswap pricing tracks the exact invariant or fails cleanly. Engine N: direct calls
//! into pool_manager::helpers on generated pool states; oracle = exact big-integer bisection.
use std::panic::{catch_unwind, AssertUnwindSafe};

use cosmwasm_std::{coin, Coin, Uint128};
use mantra_dex_std::pool_manager::{PoolInfo, PoolStatus, PoolType};
use num_bigint::BigUint;
use num_traits::Zero;
use proptest::prelude::*;
use serde::{Deserialize, Serialize};

use crate::exact::{self, big, pow10, to_u128};
use crate::framework::*;
use crate::pool::ops::{amp_strat, valid_fees, FeeSpec};

#[derive(Debug, Clone, Serialize, Deserialize)]
pub struct Case {
    pub amp: u64,
    pub decimals: Vec<u8>,
    /// pool size: mant · 10^size_exp whole tokens of the largest asset
    pub size_exp: i8,
    pub mant: u32,
    /// per-asset share of the largest asset, in 1/1000 (1..=1000): skew <= 1000:1
    pub share: Vec<u16>,
    pub oi: u8,
    pub ai: u8,
    /// offer as ppm of the offer reserve, plus a few units
    pub offer_ppm: u32,
    pub jitter: u8,
    pub fees: FeeSpec,
    /// edge of the supported range: when set, the asset with the fewest decimals gets the balance
    /// whose value normalised to the pool precision is 2^128 x boundary / (1000 x n) - balances
    /// are normalised into 128 bits and multiplied by n there, so 1000 is the exact edge of "x_i x n
    /// fits" and n x 1000 the edge of "x_i fits"
    #[serde(default)]
    pub boundary: Option<u16>,
    /// a coincidence: every asset holds the same number of raw units although the decimals differ
    /// (kept only while that is a skew of at most 1000:1)
    #[serde(default)]
    pub equal_raw: bool,
    /// outside C19's stated ranges, for the engines that have something to say there: engine 1 gives
    /// one asset 19-24 decimals (beyond the 18 the fixed-point type carries: refuse or be right),
    /// C03's numeric engine multiplies the amplification by 10^k (C03 holds for all amplifications)
    #[serde(default)]
    pub beyond: Option<u8>,
}

pub fn dec_mix() -> impl Strategy<Value = Vec<u8>> {
    let d = || prop_oneof![4 => Just(6u8), 2 => Just(8u8), 2 => Just(12u8), 4 => Just(18u8), 1 => Just(0u8), 1 => Just(1u8), 1 => 0u8..=18];
    prop_oneof![
        3 => proptest::collection::vec(d(), 2..=4),
        1 => (2usize..=4).prop_map(|n| vec![6u8; n]),
        1 => (2usize..=4).prop_map(|n| vec![18u8; n]),
        1 => Just(vec![6u8, 18]),
        1 => Just(vec![18u8, 6]),
    ]
}

pub fn case_strat() -> impl Strategy<Value = Case> {
    (
        amp_strat(),
        dec_mix(),
        prop_oneof![1 => -6i8..-1, 2 => -1i8..3, 4 => 3i8..9, 2 => 9i8..=12, 1 => 13i8..=21],
        1u32..1000,
        proptest::collection::vec(prop_oneof![3 => Just(1000u16), 3 => 300u16..=1000, 2 => 10u16..300, 1 => 1u16..10], 4),
        0u8..4,
        0u8..3,
        prop_oneof![4 => 1u32..100_000, 3 => 100_000u32..1_000_000, 1 => 1_000_000u32..3_000_000, 1 => Just(0u32)],
        0u8..8,
        valid_fees(),
        proptest::option::weighted(0.05, prop_oneof![3 => 700u16..=1300, 1 => 300u16..=4300]),
        (proptest::bool::weighted(0.04), proptest::option::weighted(0.03, 1u8..=6)),
    )
        .prop_map(|(amp, decimals, size_exp, mant, share, oi, ai, offer_ppm, jitter, fees, boundary, (equal_raw, beyond))| Case {
            amp, decimals, size_exp, mant, share, oi, ai, offer_ppm, jitter, fees, boundary, equal_raw, beyond,
        })
}

pub struct State {
    pub info: PoolInfo,
    pub amounts: Vec<u128>,
    pub decs: Vec<u8>,
}

/// ordinary states only (the edge class is for the engines written for 128-bit-edge amounts)
pub fn build_state(c: &Case) -> Option<State> {
    let mut s = build_state_edge(&Case { boundary: None, ..c.clone() })?;
    if c.equal_raw {
        let (dmin, dmax) = (*c.decimals.iter().min().unwrap(), *c.decimals.iter().max().unwrap());
        if dmax - dmin <= 3 {
            let v = s.amounts[0];
            for a in s.amounts.iter_mut() {
                *a = v;
            }
            for (coin, a) in s.info.assets.iter_mut().zip(s.amounts.iter()) {
                coin.amount = Uint128::new(*a);
            }
        }
    }
    Some(s)
}

pub fn build_state_edge(c: &Case) -> Option<State> {
    let n = c.decimals.len();
    let mut amounts = vec![];
    for i in 0..n {
        // tokens = mant * 10^size_exp * share/1000 ; units = tokens * 10^dec
        let e = c.size_exp as i32 + c.decimals[i] as i32 - 3;
        let base = big(c.mant as u128) * big(c.share[i] as u128);
        let v = if e >= 0 { base * pow10(e as u32) } else { base / pow10((-e) as u32) };
        let v = u128::try_from(v).ok()?;
        if v == 0 || v > 10u128.pow(31) {
            return None;
        }
        amounts.push(v);
    }
    if let Some(f) = c.boundary {
        // the asset with the fewest decimals is the largest one, at the edge; the others keep their
        // share of it (skew stays <= 1000:1)
        let maxd = *c.decimals.iter().max().unwrap() as u32;
        let i = (0..n).min_by_key(|i| c.decimals[*i]).unwrap();
        let norm = (BigUint::from(1u8) << 128usize) * big(f as u128) / big(1000 * n as u128);
        for j in 0..n {
            let nj = if j == i { norm.clone() } else { &norm * big(c.share[j].clamp(1, 1000) as u128) / big(1000) };
            // (beyond the 10^30 units of the stated range on purpose: there the contract must either
            // refuse or still be right)
            let v = u128::try_from(nj / pow10(maxd - c.decimals[j] as u32)).ok()?;
            if v == 0 {
                return None;
            }
            amounts[j] = v;
        }
    }
    let denoms: Vec<String> = (0..n).map(|i| format!("d{i}")).collect();
    let info = PoolInfo {
        pool_identifier: "p".into(),
        asset_denoms: denoms.clone(),
        lp_denom: "factory/x/p.LP".into(),
        asset_decimals: c.decimals.clone(),
        assets: denoms.iter().zip(amounts.iter()).map(|(d, a)| coin(*a, d)).collect(),
        pool_type: PoolType::StableSwap { amp: c.amp },
        pool_fees: c.fees.to_pool_fee(),
        status: PoolStatus::default(),
    };
    Some(State { info, amounts, decs: c.decimals.clone() })
}

/// region predicates (closed-form on the inputs) used by the known-finding signatures
pub fn skew_of(amounts: &[u128], decs: &[u8]) -> u64 {
    let xs = exact::normalise(amounts, decs);
    let mx = xs.iter().max().unwrap().clone();
    let mn = xs.iter().min().unwrap().clone();
    if mn.is_zero() {
        return u64::MAX;
    }
    u64::try_from(mx / mn).unwrap_or(u64::MAX)
}
/// total pool size S in 10^-6 token units
pub fn size_micro(amounts: &[u128], decs: &[u8]) -> BigUint {
    let m = *decs.iter().max().unwrap() as u32;
    let s: BigUint = exact::normalise(amounts, decs).iter().sum();
    s * pow10(6) / pow10(m)
}

pub struct C19Swap {
    pub survey: bool,
}

fn band_amp(a: u64) -> &'static str {
    if a <= 3 { "amp<=3" } else if a <= 10 { "amp<=10" } else if a <= 30 { "amp<=30" } else if a <= 100 { "amp<=100" } else if a <= 1000 { "amp<=1e3" } else { "amp<=1e6" }
}
fn band_skew(s: u64) -> &'static str {
    if s < 10 { "skew<10" } else if s < 30 { "skew<30" } else if s < 100 { "skew<100" } else if s < 300 { "skew<300" } else { "skew>=300" }
}
fn band_size(sz: &BigUint) -> &'static str {
    // sz in micro tokens
    if *sz < big(1_000) { "size<1e-3" } else if *sz < big(10_000) { "size<1e-2" } else if *sz < big(100_000) { "size<0.1" } else if *sz < big(1_000_000) { "size<1" } else if *sz < big(10_000_000) { "size<10" } else if *sz < big(1_000_000_000) { "size<1e3" } else { "size>=1e3" }
}

impl Engine for C19Swap {
    type Case = Case;
    fn name(&self) -> &'static str {
        "stableswap-quote-vs-exact"
    }
    fn strategy(&self, _t: Tier) -> BoxedStrategy<Case> {
        case_strat().boxed()
    }
    fn run(&self, c: &Case, st: &mut Stats) -> Result<(), String> {
        // an asset with more decimals than the 18 the contract's fixed point carries
        let widened;
        let c = if let Some(k) = c.beyond {
            let mut d = c.decimals.clone();
            let i = (c.oi as usize + k as usize) % d.len();
            d[i] = 18 + k.clamp(1, 6);
            widened = Case { decimals: d, size_exp: c.size_exp.min(3), ..c.clone() };
            st.bump("states with an asset of more than 18 decimals");
            &widened
        } else {
            c
        };
        let s = match build_state(c) {
            Some(s) => s,
            None => {
                st.bump("skipped: amount out of range");
                return Ok(());
            }
        };
        let n = s.amounts.len();
        let oi = c.oi as usize % n;
        let ai = (oi + 1 + c.ai as usize % (n - 1)) % n;
        let offer = {
            let v = big(s.amounts[oi]) * big(c.offer_ppm as u128) / big(1_000_000) + big(c.jitter as u128);
            exact::to_u128_sat(&v).max(1)
        };
        let offer_coin: Coin = coin(offer, format!("d{oi}"));
        let ask = format!("d{ai}");
        let info = s.info.clone();
        let r = catch_unwind(AssertUnwindSafe(|| pool_manager::helpers::compute_swap(&info, &offer_coin, &ask)));
        let skew = skew_of(&s.amounts, &s.decs);
        let skew_post = {
            let mut a = s.amounts.clone();
            a[oi] = a[oi].saturating_add(offer);
            skew_of(&a, &s.decs).max(skew)
        };
        let sz = size_micro(&s.amounts, &s.decs);
        let class = format!("{} {} {}", band_amp(c.amp), band_skew(skew), band_size(&sz));
        let comp = match r {
            Ok(Ok(c)) => c,
            Ok(Err(e)) => {
                st.bump(&format!("refused: {}", e.to_string().chars().take(40).collect::<String>()));
                st.bump(&format!("refused in {class}"));
                return Ok(());
            }
            Err(_) => {
                st.bump("refused: panic");
                st.bump(&format!("refused in {class}"));
                return Ok(());
            }
        };
        let gross = comp.return_amount.u128() + comp.swap_fee_amount.u128() + comp.protocol_fee_amount.u128() + comp.burn_fee_amount.u128() + comp.extra_fees_amount.u128();
        st.bump(&format!("quoted in {class}"));
        // never more than the reserve
        if gross > s.amounts[ai] {
            return Err(format!("output {gross} exceeds the ask reserve {} (state {:?})", s.amounts[ai], c));
        }
        let (lo_m2, _) = exact::exact_swap_bracket(&s.amounts, &s.decs, c.amp, oi, ai, offer.saturating_sub(2), 9);
        let (_, hi_p2) = exact::exact_swap_bracket(&s.amounts, &s.decs, c.amp, oi, ai, offer + 2, 9);
        let (e_lo, e_hi) = exact::exact_swap_bracket(&s.amounts, &s.decs, c.amp, oi, ai, offer, 9);
        let g = big(gross);
        let lower = if lo_m2 > big(2) { &lo_m2 - big(2) } else { BigUint::zero() };
        let upper = &hi_p2 + big(2);
        if e_hi >= big(3) && g < big(s.amounts[ai]) {
            st.mark();
        }
        let decs_key = format!("decimals {:?}", { let mut d = s.decs.clone(); d.sort(); d.dedup(); d });
        st.bump(&decs_key);
        if g > upper {
            let over = to_u128(&(&g - &e_hi));
            st.max(&format!("over-quote units in {class}"), over);
            if self.survey {
                st.bump(&format!("OVER in {class}"));
                return Ok(());
            }
            let msg = format!(
                "quote {gross} exceeds the exact output {e_hi} by {over} units (allowed: E(offer+2)+2 = {upper}); amp {} reserves {:?} decimals {:?} offer {offer} of asset {oi} for asset {ai}",
                c.amp, s.amounts, s.decs
            );
            return known_or_err(c, &s, skew_post, &sz, true, over, s.amounts[ai], msg, st);
        }
        if g < lower {
            let under = to_u128(&(&e_lo - &g));
            st.max(&format!("under-quote units in {class}"), under);
            if self.survey {
                st.bump(&format!("UNDER in {class}"));
                return Ok(());
            }
            let msg = format!(
                "quote {gross} is below the exact output {e_lo} by {under} units (allowed: E(offer-2)-2 = {lower}); amp {} reserves {:?} decimals {:?} offer {offer} of asset {oi} for asset {ai}",
                c.amp, s.amounts, s.decs
            );
            return known_or_err(c, &s, skew_post, &sz, false, under, s.amounts[ai], msg, st);
        }
        st.bump("within tolerance");
        Ok(())
    }
}

/// Known-finding signatures for stableswap numerics (shared by the C02/C03/C19 oracles). Each is a
/// closed-form region on the INPUTS plus a hard bound on the deviation; it applies only while its key
/// is on an `open:` line of KNOWN_FINDINGS.txt. Returns the key the deviation falls under.
///  * c19-dust: pool worth less than 0.1 whole token in total: the contract's 18-digit fixed point
///    has too few significant digits left (an 18-decimals unit is one atomic); region-only signature.
///  * c19-lowamp-skew-precision: the coefficients of the D- and y-iterations are built by
///    successive floor divisions whose error is amplified by D/(n·x_min) and divided by amp·n², so
///    results are off by about skew/amp units; bound: 3 + 2·skew/amp units (8 + … from skew 30 on).
pub fn ss_known_key(amp: u64, skew: u64, size_micro_tokens: &BigUint, deviation_units: &BigUint, reference_amount: &BigUint) -> Option<&'static str> {
    let _ = reference_amount;
    if *size_micro_tokens < big(100_000) {
        // region-only signature: below 0.1 token nothing about the invariant is tracked; the weak
        // obligations (output <= reserve, conservation, no trace on refusal) are checked elsewhere
        if kf_open("c19-dust") {
            return Some("c19-dust");
        }
        return None;
    }
    // deviation of about skew/amp units: 3 + 2*skew/amp, 8 + 2*skew/amp once the skew reaches 30
    let base: u128 = if skew >= 30 { 8 } else { 3 };
    let bound = big(base) + big(2) * big(skew as u128) / big(amp.max(1) as u128);
    if kf_open("c19-lowamp-skew-precision") && *deviation_units <= bound {
        return Some("c19-lowamp-skew-precision");
    }
    None
}

fn known_or_err(c: &Case, _s: &State, skew: u64, sz: &BigUint, _over: bool, units: u128, reference: u128, msg: String, st: &mut Stats) -> Result<(), String> {
    match ss_known_key(c.amp, skew, sz, &big(units), &big(reference)) {
        Some(k) => {
            st.known(k, || msg);
            Ok(())
        }
        None => Err(msg),
    }
}

pub struct C19D {
    pub survey: bool,
}

impl Engine for C19D {
    type Case = Case;
    fn name(&self) -> &'static str {
        "stableswap-D-vs-exact"
    }
    fn strategy(&self, _t: Tier) -> BoxedStrategy<Case> {
        case_strat().boxed()
    }
    fn run(&self, c: &Case, st: &mut Stats) -> Result<(), String> {
        let s = match build_state_edge(c) {
            Some(s) => s,
            None => {
                st.bump("skipped: amount out of range");
                return Ok(());
            }
        };
        let info = s.info.clone();
        let amp = c.amp;
        let r = catch_unwind(AssertUnwindSafe(|| pool_manager::helpers::compute_d_with_pool_info(&amp, &info.assets, &info)));
        let skew = skew_of(&s.amounts, &s.decs);
        let class = format!("{} {}", band_amp(c.amp), band_skew(skew));
        if c.boundary.is_some() {
            st.bump(if matches!(r, Ok(Some(_))) { "D at the 128-bit edge of normalised balances: computed" } else { "D at the 128-bit edge of normalised balances: refused" });
        }
        let d_c = match r {
            Ok(Some(d)) => d,
            Ok(None) => {
                st.bump("D refused (None)");
                return Ok(());
            }
            Err(_) => {
                st.bump("D refused (panic)");
                return Ok(());
            }
        };
        let d_c = BigUint::from_bytes_be(&d_c.to_be_bytes());
        let xs = exact::normalise(&s.amounts, &s.decs);
        let d_e = exact::d_floor(&xs, c.amp);
        st.bump(&format!("D computed in {class}"));
        st.mark();
        let (dev, dir) = if d_c >= d_e { (&d_c - &d_e, "+") } else { (&d_e - &d_c, "-") };
        let devu = u128::try_from(dev.clone()).unwrap_or(u128::MAX);
        st.max(&format!("D deviation {dir} in {class}"), devu);
        if dev <= big(2) {
            st.bump("D within 2 units");
            return Ok(());
        }
        if self.survey {
            st.bump(&format!("D off by >2 ({dir}) in {class}"));
            return Ok(());
        }
        let msg = format!("integer invariant D = {d_c} but the exact root is {d_e} (off by {dir}{dev}); amp {} reserves {:?} decimals {:?}", c.amp, s.amounts, s.decs);
        // same precision loss as in the y-equation: successive floor divisions amplified by the skew
        if let Some(k) = ss_known_key(c.amp, skew, &big(u128::MAX), &dev, &BigUint::zero()) {
            st.known(k, || msg);
            return Ok(());
        }
        Err(msg)
    }
}

pub fn check(tier: Tier, seed: u64) -> PropReport {
    let mut rep = PropReport::new(
        "C19",
        tier,
        seed,
        "exploration",
        "cases = stableswap pool states (2-4 assets; amp 1..10^6 in three log bands; decimals from {6,8,12,18} plus 0, 1 and arbitrary 0..18; size 10^-6..10^12 whole tokens; per-asset skew up to 1000:1) x (offer asset, ask asset, offer from 1 unit to 3x the offer reserve with 0-7 units of jitter) x fee sets from zero to the 20% cap; for the D engine additionally the edge of the supported range: the asset with the fewest decimals at 2^128 x f/(1000 n) in normalised units (f around 1000 = where balance x n stops fitting 128 bits, and up to n x 1000 = where the balance itself stops fitting), the others at their share of it (skew still <= 1000:1, amounts beyond 10^30 units on purpose), where the contract must either refuse or still be within the bound; engine 3 (pool histories): every stableswap swap actually executed - direct, each hop of a route (routes may come back to a pool they already traded on), the internal swap of a one-asset deposit - must have delivered what the exact invariant allows on the reserves that hop met (tracked hop by hop from the events), same bound plus one unit for the fee floors; engine 1 calls pool_manager::helpers::compute_swap and checks E(offer-2)-2 <= gross output <= E(offer+2)+2 and gross <= reserve, where E is the exact maximal output from big-integer bisection of the Curve invariant at 9 extra digits, bracketed so the resolution of D cannot matter; engine 2 calls compute_d_with_pool_info and checks |D - exact root| <= 2; a refusal (Err or panic) is a clean refusal; non-trivial = exact output >= 3 units and below the reserve (engine 1), every computed D (engine 2); distinct by the generated state",
    );
    rep.assumptions = vec![
        "exactness is relative to the invariant as parameterised in this code base (Ann = amp*n)".into(),
        "pricing functions are called directly (pub fns of pool_manager::helpers), the same functions the Swap/Simulation/ProvideLiquidity entry points call".into(),
    ];
    let cases = match tier {
        Tier::Quick => 200_000,
        Tier::Thorough => 10_000_000,
    };
    let e = C19Swap { survey: false };
    let o = drive(&e, "C19", tier, cases, seed);
    rep.push(e.name(), o);
    let e = C19D { survey: false };
    let o = drive(&e, "C19", tier, cases, seed ^ 0x5151);
    rep.push(e.name(), o);
    // engine 3: the same bound on every stableswap swap executed in generated pool histories (the
    // router and the one-asset deposit price through the same functions, from the reserves they load)
    let h = crate::props::poolprops::c19_hist();
    let hn = match tier {
        Tier::Quick => 3000,
        Tier::Thorough => 30_000,
    };
    let o = drive(&h, "C19", tier, hn, seed);
    rep.push(h.name, o);
    rep.floor("c19: hop on a pool the same route already traded on", hn / 20);
    rep.floor("c19: hop stableswap swaps priced", hn / 4);
    rep.floor("within tolerance", cases / 2);
    rep.floor("D within 2 units", cases / 2);
    rep.floor("D at the 128-bit edge of normalised balances: computed", cases / 2000);
    rep.floor("D at the 128-bit edge of normalised balances: refused", cases / 2000);
    rep
}

pub fn check_survey(tier: Tier, seed: u64) -> PropReport {
    let mut rep = PropReport::new("SURVEY19", tier, seed, "exploration", "survey");
    let cases = match tier {
        Tier::Quick => 200_000,
        Tier::Thorough => 2_000_000,
    };
    let e = C19Swap { survey: true };
    let o = drive(&e, "SURVEY19", tier, cases, seed);
    rep.push(e.name(), o);
    let e = C19D { survey: true };
    let o = drive(&e, "SURVEY19", tier, cases, seed);
    rep.push(e.name(), o);
    rep
}

pub fn _unused(_: Uint128) {}
