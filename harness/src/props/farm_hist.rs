//! Engine F: farm histories on the World with the reference ledger.
use proptest::prelude::*;

use crate::farm::interp::{FMon, FarmSim};
use crate::farm::ops::*;
use crate::framework::*;

pub struct FarmHist {
    pub name: &'static str,
    pub mon: FMon,
    pub weights: FWeights,
    pub max_ops_quick: usize,
    pub max_ops_thorough: usize,
    pub liquidate: bool,
}

impl Engine for FarmHist {
    type Case = FarmCase;
    fn name(&self) -> &'static str {
        self.name
    }
    fn strategy(&self, tier: Tier) -> BoxedStrategy<FarmCase> {
        let max = match tier {
            Tier::Quick => self.max_ops_quick,
            Tier::Thorough => self.max_ops_thorough,
        };
        case_strat(self.weights, max).boxed()
    }
    fn run(&self, case: &FarmCase, st: &mut Stats) -> Result<(), String> {
        let mut sim = FarmSim::new(&case.cfg, self.mon);
        for op in case.ops.iter() {
            sim.step(op, st)?;
        }
        st.bump("histories");
        st.add("steps", sim.steps as u64);
        let reward_is_locked_lp = sim.l.farms.values().any(|f| sim.lps.contains(&f.reward_denom));
        if reward_is_locked_lp {
            st.bump("histories where a reward denom is an LP denom");
        }
        if self.liquidate {
            let seed = case.ops.len() as u64;
            sim.liquidate(seed, st)?;
        }
        Ok(())
    }
}

pub fn all_mon() -> FMon {
    FMon { c05: true, c06: true, c07: true, c08: true, c09: true, c10: true, c11: true, c20: true }
}

pub fn dev(tier: Tier, seed: u64) -> PropReport {
    let mut rep = PropReport::new("DEVF", tier, seed, "exploration", "development run (farm histories, all monitors)");
    let e = FarmHist { name: "farm-history-all", mon: all_mon(), weights: FWeights::default(), max_ops_quick: 40, max_ops_thorough: 80, liquidate: true };
    let cases = match tier {
        Tier::Quick => 600,
        Tier::Thorough => 20_000,
    };
    let o = drive(&e, "DEVF", tier, cases, seed);
    rep.push(e.name, o);
    rep
}
