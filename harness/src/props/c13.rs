//! C13 — price protections are enforced and failed trades change nothing.
//! From a generated state, a message is sent with a descending sequence of tolerances (strictest
//! last): a rejection leaves the state untouched, so the same state is probed again with the next
//! tolerance; the first acceptance ends the sequence. Exact-rational oracles decide each attempt
//! where the property defines the outcome; the order gives the metamorphic monotonicity for free.
use cosmwasm_std::{coin, Addr, Coin, Decimal, Uint128};
use mantra_dex_std::pool_manager as pm;
use num_bigint::BigUint;
use num_traits::Zero;
use proptest::prelude::*;
use serde::{Deserialize, Serialize};

use crate::exact::{self, big, pow10};
use crate::framework::*;
use crate::pool::interp::*;
use crate::pool::ops::*;
use crate::poolview::{fee_floor, Kind, PoolView, DEC18};
use crate::world::Snapshot;

#[derive(Debug, Clone, Serialize, Deserialize)]
pub enum Probe {
    /// swap with max_slippage from a descending list
    SwapTol { user: u8, pool: u16, offer: u8, ask: u8, amt: Amt, extra_tols: Vec<u64> },
    /// swap with a belief price around the quoted price
    Belief { user: u8, pool: u16, offer: u8, ask: u8, amt: Amt, belief_ppm: u32, extra_tols: Vec<u64> },
    /// two-asset deposit: exact pool proportion (off_ppm = 0) or off by off_ppm, tolerances descending
    Deposit { user: u8, pool: u16, mult_ppm: u32, off_ppm: i32, extra_tols: Vec<u64> },
    /// one-asset deposit into a constant-product pool: the deposit the pool manager makes for the
    /// caller after swapping half (half : proceeds against the post-swap reserves) is subject to the
    /// caller's liquidity_max_slippage like any other deposit, whatever the swap tolerance is
    #[serde(alias = "SingleDeposit")]
    SingleDep {
        user: u8,
        pool: u16,
        asset: u8,
        amt: Amt,
        extra_tols: Vec<u64>,
        /// send no swap_max_slippage: the internal swap is then held to the default 1%, whatever
        /// the deposit tolerance says
        #[serde(default)]
        swap_default: bool,
    },
    /// route through constant-product pools with max_slippage from a tolerance list (every hop is
    /// subject to the same protection, default and cap as a direct swap)
    RouteTol { user: u8, first_pool: u16, first_offer: u8, hops: Vec<(u16, u8)>, amt: Amt, extra_tols: Vec<u64> },
    /// route with minimum_receive = quote + {+1, 0, -1}, strictest first
    RouteMin { user: u8, first_pool: u16, first_offer: u8, hops: Vec<(u16, u8)>, amt: Amt },
}

#[derive(Debug, Clone, Serialize, Deserialize)]
pub struct Case {
    pub cfg: PCfg,
    pub creates: Vec<(CreateSpec, POp)>,
    pub prefix: Vec<POp>,
    pub probes: Vec<Probe>,
    #[serde(default)]
    /// per probe: walk the tolerances upwards (boundary-focused: rejections until the first value that
    /// must be accepted) or downwards (monotonicity-focused)
    pub ascending: Vec<bool>,
}

fn tols() -> impl Strategy<Value = Vec<u64>> {
    // tolerances in 10^-9 (Decimal atomics / 10^9)
    proptest::collection::vec(prop_oneof![3 => 0u64..50_000_000, 2 => 0u64..600_000_000, 1 => 500_000_000u64..2_000_000_000], 0..4)
}

fn probe_strat() -> impl Strategy<Value = Probe> {
    prop_oneof![
        4 => (0u8..4, any::<u16>(), 0u8..4, 0u8..3, amt_strat(), tols()).prop_map(|(user, pool, offer, ask, amt, extra_tols)| Probe::SwapTol { user, pool, offer, ask, amt, extra_tols }),
        2 => (0u8..4, any::<u16>(), 0u8..4, 0u8..3, amt_strat(), 800_000u32..1_300_000, tols())
            .prop_map(|(user, pool, offer, ask, amt, belief_ppm, extra_tols)| Probe::Belief { user, pool, offer, ask, amt, belief_ppm, extra_tols }),
        3 => (0u8..4, any::<u16>(), 1u32..2_000_000, prop_oneof![2 => Just(0i32), 3 => -300_000i32..300_000, 1 => -20_000i32..20_000], tols())
            .prop_map(|(user, pool, mult_ppm, off_ppm, extra_tols)| Probe::Deposit { user, pool, mult_ppm, off_ppm, extra_tols }),
        2 => (0u8..4, any::<u16>(), 0u8..4, proptest::collection::vec((any::<u16>(), 0u8..3), 0..4), amt_strat())
            .prop_map(|(user, first_pool, first_offer, hops, amt)| Probe::RouteMin { user, first_pool, first_offer, hops, amt }),
        3 => (0u8..4, any::<u16>(), 0u8..4, proptest::collection::vec((any::<u16>(), 0u8..3), 0..3), amt_strat(), tols())
            .prop_map(|(user, first_pool, first_offer, hops, amt, extra_tols)| Probe::RouteTol { user, first_pool, first_offer, hops, amt, extra_tols }),
        3 => (0u8..4, any::<u16>(), 0u8..2, amt_strat(), tols(), proptest::bool::weighted(0.4))
            .prop_map(|(user, pool, asset, amt, extra_tols, swap_default)| Probe::SingleDep { user, pool, asset, amt, extra_tols, swap_default }),
    ]
}

pub fn case_strat() -> impl Strategy<Value = Case> {
    (
        cfg_strat(),
        proptest::collection::vec((create_strat(), provide_strat()), 1..=3),
        proptest::collection::vec(
            op_strat(Weights { roundtrip: 0, create: 0, provide: 4, single: 1, withdraw: 1, swap: 6, route: 2, misc: 0, bad: 0 }, false),
            0..8,
        ),
        proptest::collection::vec(probe_strat(), 1..4),
        proptest::collection::vec(proptest::bool::weighted(0.65), 4),
    )
        .prop_map(|(cfg, creates, prefix, probes, ascending)| Case { cfg, creates, prefix, probes, ascending })
}

#[derive(Debug, PartialEq, Clone, Copy)]
enum Decision {
    MustAccept,
    MustReject,
    Either,
}

fn dec_from_nano(v: u64) -> Decimal {
    Decimal::new(Uint128::new(v as u128 * 1_000_000_000))
}

/// effective swap tolerance in Decimal atomics: default 1%, capped at 50%
fn eff_swap_tol(t: Option<u128>) -> u128 {
    t.unwrap_or(DEC18 / 100).min(DEC18 / 2)
}

/// constant product: accept iff (E - net)/E <= tol with E = floor(offer x pre-trade price)
fn cp_swap_decision(p: &PoolView, oi: usize, ai: usize, offer: u128, tol_atomics: u128) -> (Decision, String) {
    let (x, y) = (p.reserves[oi], p.reserves[ai]);
    if x == 0 || y == 0 || offer == 0 {
        return (Decision::Either, "empty".into());
    }
    let gross = exact::to_u128(&(big(y) * big(offer) / (big(x) + big(offer))));
    let fee_sum: u128 = fee_floor(gross, p.swap_fee) + fee_floor(gross, p.protocol_fee) + fee_floor(gross, p.burn_fee) + p.extra_fees.iter().map(|s| fee_floor(gross, *s)).sum::<u128>();
    let net = gross - fee_sum;
    let e_hi = big(offer) * big(y) / big(x);
    // the contract rounds the price to 18 digits first: E may be lower by offer/10^18 + 1
    let lo_slack = big(offer) / big(DEC18) + big(1);
    let e_lo = if e_hi > lo_slack { &e_hi - &lo_slack } else { BigUint::zero() };
    if e_lo.is_zero() || big(gross) > e_lo {
        // degenerate (price rounds to nothing, or the spread would be negative): not defined
        return (Decision::Either, "degenerate".into());
    }
    // ratio_hi = (e_hi - net)/e_hi <= tol  =>  contract's ratio (with a smaller or equal E) <= tol
    let accept_sure = (&e_hi - big(net)) * big(DEC18) <= big(tol_atomics) * &e_hi;
    // ratio_lo = (e_lo - net)/e_lo >= tol + 2e-18  =>  certainly above after the contract's floor
    let reject_sure = big(net) < e_lo && (&e_lo - big(net)) * big(DEC18) >= (big(tol_atomics) + big(2)) * &e_lo;
    let info = format!("offer {offer}, reserves {x}/{y}, gross {gross}, net {net}, E in [{e_lo},{e_hi}], tolerance {tol_atomics}e-18");
    if accept_sure {
        (Decision::MustAccept, info)
    } else if reject_sure {
        (Decision::MustReject, info)
    } else {
        (Decision::Either, info)
    }
}

/// stableswap: exact marginal price of asset i in asset j at the current reserves, as a rational
/// (numerator, denominator) in normalised units: g_i / g_j with g_k = Ann + D^(n+1) / (n^n prod(x) x_k)
fn ss_marginal_price(p: &PoolView, oi: usize, ai: usize) -> Option<(BigUint, BigUint)> {
    let amp = match p.kind {
        Kind::Ss { amp } => amp,
        _ => return None,
    };
    let xs = p.normalised();
    if xs.iter().any(|x| x.is_zero()) {
        return None;
    }
    let n = xs.len() as u32;
    let k = pow10(9);
    let d = exact::d_floor_scaled(&xs, amp, 9); // D * 10^9
    let ann = big(amp as u128) * big(n as u128);
    let prod: BigUint = xs.iter().product();
    let nn = big(n as u128).pow(n);
    // g_k = Ann + D^(n+1)/(nn * prod * x_k); put everything over the common denominator
    // den_k = nn * prod * x_k * k^(n+1);  num_k = Ann * den_k + d^(n+1)
    let dn1 = d.pow(n + 1);
    let kk = k.pow(n + 1);
    let den_i = &nn * &prod * &xs[oi] * &kk;
    let den_j = &nn * &prod * &xs[ai] * &kk;
    let num_i = &ann * &den_i + &dn1;
    let num_j = &ann * &den_j + &dn1;
    // g_i/g_j = (num_i/den_i)/(num_j/den_j) = num_i*den_j / (num_j*den_i)
    Some((num_i * den_j, num_j * den_i))
}

pub struct Protections;

struct Attempt {
    ok: bool,
    err: String,
}

fn attempt<F: FnOnce(&mut Sim) -> Result<cw_multi_test::AppResponse, String>>(sim: &mut Sim, what: &str, f: F) -> Result<Attempt, String> {
    let pre = Snapshot::take(&sim.w);
    let r = f(sim);
    sim.last_obs = None;
    let post = Snapshot::take(&sim.w);
    if r.is_err() && pre != post {
        return Err(format!("[C13] {what}: rejected but changed state: {}", pre.diff(&post).join("; ")));
    }
    Ok(Attempt { ok: r.is_ok(), err: r.err().unwrap_or_default() })
}

/// the documented deposit predicate in exact rationals: (both ratio tests hold, undecidable at the
/// contract's 18-digit resolution)
fn ratio_test(da: &BigUint, db: &BigUint, pa: &BigUint, pb: &BigUint, tv: u128) -> (bool, bool) {
    if tv > DEC18 {
        return (false, false);
    }
    let omt = big(DEC18 - tv);
    let c1 = da * &omt * pb <= pa * db * big(DEC18);
    let c2 = db * &omt * pa <= pb * da * big(DEC18);
    let near_abs = |an: &BigUint, ad: &BigUint, cn: &BigUint, cd: &BigUint| -> bool {
        let l = an * &omt * cd;
        let r = cn * ad * big(DEC18);
        let diff = if l > r { &l - &r } else { &r - &l };
        diff <= big(2) * ad * cd
    };
    (c1 && c2, near_abs(da, db, pa, pb) || near_abs(db, da, pb, pa))
}

fn protection_reason(e: &str) -> bool {
    let e = e.to_lowercase();
    e.contains("slippage") || e.contains("spread") || e.contains("minimum receive") || e.contains("belief") || e.contains("denominator must not be zero")
}

impl Protections {
    /// descending list of distinct tolerance settings: (setting sent, effective atomics)
    fn swap_tolerances(extra: &[u64], boundary: Option<u128>, ascending: bool) -> Vec<(Option<Decimal>, u128)> {
        let mut v: Vec<(Option<Decimal>, u128)> = vec![
            (None, eff_swap_tol(None)),
            (Some(Decimal::zero()), 0),
            (Some(Decimal::percent(50)), DEC18 / 2),
            (Some(Decimal::new(Uint128::new(DEC18 / 2 + 1))), DEC18 / 2),
            (Some(Decimal::one()), DEC18 / 2),
            (Some(Decimal::percent(150)), DEC18 / 2),
        ];
        for e in extra {
            let d = dec_from_nano(*e);
            v.push((Some(d), eff_swap_tol(Some(d.atomics().u128()))));
        }
        if let Some(b) = boundary {
            for delta in [-1i128, 0, 1] {
                let a = (b as i128 + delta).max(0) as u128;
                v.push((Some(Decimal::new(Uint128::new(a))), eff_swap_tol(Some(a))));
            }
        }
        // by effective tolerance; among equal effective values keep a stable order
        if ascending {
            v.sort_by(|a, b| a.1.cmp(&b.1));
        } else {
            v.sort_by(|a, b| b.1.cmp(&a.1));
        }
        v
    }

    fn run_swap(&self, sim: &mut Sim, user: u8, pool: u16, offer: u8, ask: u8, amt: &Amt, belief_ppm: Option<u32>, extra: &[u64], ascending: bool, st: &mut Stats) -> Result<(), String> {
        let obs = sim.obs();
        let funded: Vec<&PoolView> = obs.pools.values().filter(|p| p.all_reserves_positive()).collect();
        if funded.is_empty() {
            return Ok(());
        }
        let p = funded[pick(pool, funded.len())].clone();
        let oi = offer as usize % p.n();
        let ai = (oi + 1 + ask as usize % (p.n() - 1)) % p.n();
        let sender = sim.user(user);
        let amount = amt.resolve(p.reserves[oi]).min(10u128.pow(33));
        if amount == 0 || sim.w.balance(&sender, &p.denoms[oi]) < amount {
            return Ok(());
        }
        let offer_coin = coin(amount, &p.denoms[oi]);
        let q = match sim.w.simulate(&p.id, offer_coin.clone(), &p.denoms[ai]) {
            Ok(q) => q,
            Err(_) => return Ok(()),
        };
        let denom_total = q.return_amount.u128() + q.slippage_amount.u128();
        let boundary = if denom_total > 0 { Some(exact::to_u128(&(big(q.slippage_amount.u128()) * big(DEC18) / big(denom_total)))) } else { None };
        let belief: Option<Decimal> = belief_ppm.and_then(|ppm| {
            if q.return_amount.is_zero() {
                return None;
            }
            let at = big(amount) * big(ppm as u128) * pow10(12) / big(q.return_amount.u128());
            u128::try_from(at).ok().filter(|a| *a > 0).map(|a| Decimal::new(Uint128::new(a)))
        });
        if belief_ppm.is_some() && belief.is_none() {
            return Ok(());
        }
        let list = Self::swap_tolerances(extra, boundary, ascending);
        let mut rejected_at: Option<u128> = None;
        for (setting, eff) in list {
            let what = format!(
                "swap {} for {} on {} {} ({:?}, reserves {:?}) with max_slippage {:?}{}",
                offer_coin,
                p.denoms[ai],
                kind_label(&p),
                p.id,
                p.kind,
                p.reserves,
                setting.map(|d| d.to_string()),
                belief.map(|b| format!(" belief_price {b}")).unwrap_or_default()
            );
            let (pid, askd, oc) = (p.id.clone(), p.denoms[ai].clone(), offer_coin.clone());
            let s2 = sender.clone();
            let a = attempt(sim, &what, |s| s.w.swap(&s2, &pid, oc, &askd, belief, setting, None))?;
            // a refusal is the protection's if its wording says so or - wording aside - if the
            // contract's own formula applied to the quote's figures refuses this trade
            let by_numbers = crate::pool::monitors::protection_refuses(&q, amount, Some(Decimal::new(Uint128::new(eff))), belief) == Some(true);
            if !a.ok && !protection_reason(&a.err) && !by_numbers {
                // refused for another reason (arithmetic on extreme states): not this property's business
                st.bump("swap attempts refused for other reasons");
                return Ok(());
            }
            // metamorphic: a larger (or equal) effective tolerance never rejects what a smaller one accepts
            if a.ok {
                if let Some(r) = rejected_at {
                    if r >= eff && !ascending {
                        return Err(format!("[C13] {what}: accepted, although the same swap was rejected with the larger effective tolerance {r}e-18"));
                    }
                }
            }
            // absolute oracles
            if let Some(bp) = belief {
                // accept iff net >= floor(offer / belief) x (1 - tol)
                let inv = big(DEC18) * big(DEC18) / big(bp.atomics().u128()); // floor18(1/belief) in atomics
                let expected = big(amount) * &inv / big(DEC18);
                let net = big(q.return_amount.u128());
                let must_accept = net >= expected || (&expected - &net) * big(DEC18) <= big(eff) * &expected;
                let must_reject = net < expected && (&expected - &net) * big(DEC18) >= (big(eff) + big(2)) * &expected;
                if must_accept && !a.ok {
                    return Err(format!("[C13] {what}: rejected ({}) although the return {net} is within the tolerance of offer/belief_price = {expected}", a.err));
                }
                if must_reject && a.ok {
                    return Err(format!("[C13] {what}: accepted although the return {net} is below offer/belief_price = {expected} by more than the tolerance"));
                }
                st.bump("belief-price attempts decided");
            } else {
                match p.kind {
                    Kind::Cp => {
                        let (dec, info) = cp_swap_decision(&p, oi, ai, amount, eff);
                        match (dec, a.ok) {
                            (Decision::MustAccept, false) => return Err(format!("[C13] {what}: rejected ({}) although price impact plus fees are within the tolerance ({info})", a.err)),
                            (Decision::MustReject, true) => return Err(format!("[C13] {what}: accepted although price impact plus fees exceed the tolerance ({info})")),
                            (Decision::Either, _) => st.bump("cp swap attempts inside the indifference band"),
                            _ => st.bump("cp swap attempts decided"),
                        }
                        if let Some(b) = boundary {
                            if b.abs_diff(eff) <= DEC18 / 100 {
                                st.bump("cp swap attempts within 1% of the boundary");
                            }
                        }
                    }
                    Kind::Ss { .. } => {
                        if a.ok {
                            if let Some((pn, pd)) = ss_marginal_price(&p, oi, ai) {
                                // expected output at the pre-trade marginal price, in ask units (rational)
                                let m = p.max_dec() as u32;
                                let a_norm = big(amount) * pow10(m - p.decimals[oi] as u32);
                                let e_num = &a_norm * &pn; // over pd, normalised
                                let net_norm = big(q.return_amount.u128()) * pow10(m - p.decimals[ai] as u32);
                                // loss ratio (E - net)/E <= tol + slack ?
                                let e_den = pd.clone();
                                if &net_norm * &e_den < e_num {
                                    let loss_num = &e_num - &net_norm * &e_den;
                                    // allowed: tol + 1e-9 relative + 3 ask units
                                    let unit = pow10(m - p.decimals[ai] as u32);
                                    let allowed = &e_num * (big(eff) + big(1_000_000_000)) / big(DEC18) + big(3) * &unit * &e_den;
                                    if loss_num > allowed {
                                        // known finding: the spread is measured against 1:1 par, not the pool price.
                                        // With the pre-trade price p = pn/pd > 1 the par-based test only ensures
                                        // net >= offer x (1 - tol), i.e. a loss of up to 1 - (1 - tol)/p
                                        let above_par = pn > pd;
                                        let bound = &e_num - &a_norm * &e_den * (big(DEC18) - big(eff)) / big(DEC18) + big(3) * &unit * &e_den + &e_num / big(1_000_000_000);
                                        let msg = format!("[C13] {what}: accepted although the loss against the pre-trade pool price ({pn}/{pd} per normalised unit) exceeds the tolerance {eff}e-18: quoted return {}", q.return_amount);
                                        if kf_open("c13-ss-spread-vs-par") && above_par && loss_num <= bound {
                                            st.known("c13-ss-spread-vs-par", || msg);
                                        } else {
                                            return Err(msg);
                                        }
                                    }
                                }
                                st.bump("ss swap acceptances checked against the marginal price");
                            }
                        }
                    }
                }
            }
            if a.ok {
                st.bump("swap sequences ending in an acceptance");
                st.mark();
                return Ok(());
            }
            rejected_at = Some(rejected_at.map(|r| r.max(eff)).unwrap_or(eff));
            st.bump("swap attempts rejected by the protection (state verified unchanged)");
        }
        st.bump("swap sequences rejected at every tolerance");
        Ok(())
    }

    fn run_deposit(&self, sim: &mut Sim, user: u8, pool: u16, mult_ppm: u32, off_ppm: i32, extra: &[u64], ascending: bool, st: &mut Stats) -> Result<(), String> {
        let obs = sim.obs();
        let funded: Vec<&PoolView> = obs.pools.values().filter(|p| p.all_reserves_positive() && p.n() == 2).collect();
        if funded.is_empty() {
            return Ok(());
        }
        let p = funded[pick(pool, funded.len())].clone();
        let sender = sim.user(user);
        // exact proportion: k x reserves / gcd
        let g = num_integer::gcd(p.reserves[0], p.reserves[1]);
        let (u0, u1) = (p.reserves[0] / g, p.reserves[1] / g);
        // scale so that the deposit is about mult_ppm of the pool, at least one multiple
        let k = (big(g) * big(mult_ppm as u128) / big(1_000_000)).max(big(1));
        let d0 = exact::to_u128(&(big(u0) * &k).min(big(10u128.pow(33))));
        let mut d1 = exact::to_u128(&(big(u1) * &k).min(big(10u128.pow(33))));
        let exact_prop = off_ppm == 0 && big(d0) * big(p.reserves[1]) == big(d1) * big(p.reserves[0]);
        if off_ppm != 0 {
            let adj = big(d1) * big((1_000_000i64 + off_ppm as i64) as u128) / big(1_000_000);
            d1 = exact::to_u128(&adj).max(1);
        }
        if d0 == 0 || d1 == 0 || sim.w.balance(&sender, &p.denoms[0]) < d0 || sim.w.balance(&sender, &p.denoms[1]) < d1 {
            return Ok(());
        }
        let funds: Vec<Coin> = vec![coin(d0, &p.denoms[0]), coin(d1, &p.denoms[1])];
        // tolerance list, descending; values above 1 must be refused
        let mut list: Vec<Option<u128>> = vec![None, Some(DEC18), Some(DEC18 + 1), Some(DEC18 / 2), Some(DEC18 / 100), Some(0)];
        for e in extra {
            list.push(Some(*e as u128 * 1_000_000_000));
        }
        // explicit tolerances descending; "no tolerance" (never rejects) comes last, once every
        // explicit one has rejected
        list.sort_by(|a, b| match (a, b) {
            (None, None) => std::cmp::Ordering::Equal,
            (None, _) => std::cmp::Ordering::Greater,
            (_, None) => std::cmp::Ordering::Less,
            (Some(x), Some(y)) => if ascending { x.cmp(y) } else { y.cmp(x) },
        });
        // sorted by denom, as the documented predicate is stated
        let mut pairs = vec![(p.denoms[0].clone(), d0, p.reserves[0]), (p.denoms[1].clone(), d1, p.reserves[1])];
        pairs.sort_by(|a, b| a.0.cmp(&b.0));
        let (da, db, pa, pb) = (big(pairs[0].1), big(pairs[1].1), big(pairs[0].2), big(pairs[1].2));
        let mut rejected_at: Option<u128> = None;
        for t in list {
            let setting = t.map(|a| Decimal::new(Uint128::new(a)));
            let what = format!(
                "deposit {:?} into {} {} (reserves {:?}) with liquidity_max_slippage {:?}",
                funds.iter().map(|c| c.to_string()).collect::<Vec<_>>(),
                kind_label(&p),
                p.id,
                p.reserves,
                setting.map(|d| d.to_string())
            );
            let (pid, f2, s2) = (p.id.clone(), funds.clone(), sender.clone());
            let a = attempt(sim, &what, |s| s.w.provide(&s2, &pid, &f2, setting, None, None, None, None))?;
            // the refusal is the tolerance's if its wording says so or if the documented predicate
            // itself refuses this deposit (constant product; a tolerance above 1 is always refused)
            let predicted_reject = match t {
                Some(tv) if tv > DEC18 => true,
                Some(tv) if !matches!(p.kind, Kind::Ss { .. }) => {
                    let (okp, near) = ratio_test(&da, &db, &pa, &pb, tv);
                    !okp && !near
                }
                _ => false,
            };
            let slippage_err = a.err.to_lowercase().contains("slippage") || predicted_reject;
            if !a.ok && !slippage_err {
                st.bump("deposit attempts refused for other reasons");
                return Ok(());
            }
            match t {
                Some(tv) if tv > DEC18 => {
                    if a.ok {
                        return Err(format!("[C13] {what}: a tolerance above 1 was accepted"));
                    }
                    st.bump("deposit tolerance above 1 refused");
                    continue;
                }
                _ => {}
            }
            let is_ss = matches!(p.kind, Kind::Ss { .. });
            if let Some(tv) = t {
                if a.ok {
                    if let Some(r) = rejected_at {
                        if r >= tv && !ascending {
                            return Err(format!("[C13] {what}: accepted, although the same deposit was rejected with the larger tolerance {r}e-18"));
                        }
                    }
                }
                if !is_ss {
                    // documented predicate, exact rationals: da/db (1-t) <= pa/pb and db/da (1-t) <= pb/pa
                    let omt = big(DEC18 - tv);
                    let c1 = &da * &omt * &pb <= &pa * &db * big(DEC18);
                    let c2 = &db * &omt * &pa <= &pb * &da * big(DEC18);
                    // band: the contract floors each ratio (and the product) at 18 digits, i.e. loses up
                    // to 2e-18 ABSOLUTE on each side of a comparison: a/b*(1-t) vs c/d is decided only
                    // when the exact values differ by more than 2e-18
                    let near_abs = |an: &BigUint, ad: &BigUint, cn: &BigUint, cd: &BigUint| -> bool {
                        // |an/ad * omt/1e18 - cn/cd| <= 2e-18  <=>  |an*omt*cd - cn*ad*1e18| * 1e18 <= 2 * ad*cd*1e18
                        let l = an * &omt * cd;
                        let r = cn * ad * big(DEC18);
                        let diff = if l > r { &l - &r } else { &r - &l };
                        diff <= big(2) * ad * cd
                    };
                    let near = near_abs(&da, &db, &pa, &pb) || near_abs(&db, &da, &pb, &pa);
                    if !near {
                        if (c1 && c2) != a.ok {
                            return Err(format!(
                                "[C13] {what}: accepted={} but the deposit ratio is{} within the tolerance of the pool ratio (deposit {da}/{db}, pool {pa}/{pb}, by denom)",
                                a.ok,
                                if c1 && c2 { "" } else { " not" }
                            ));
                        }
                        st.bump("cp deposit attempts decided");
                    } else {
                        st.bump("cp deposit attempts inside the indifference band");
                    }
                }
                if exact_prop && !a.ok {
                    let msg = format!("[C13] {what}: a deposit in exact pool proportion was rejected ({})", a.err);
                    if is_ss && kf_open("c13-ss-deposit-tolerance") && tv <= DEC18 {
                        st.known("c13-ss-deposit-tolerance", || msg);
                    } else {
                        return Err(msg);
                    }
                }
            } else if !a.ok {
                return Err(format!("[C13] {what}: rejected for slippage although no tolerance was given ({})", a.err));
            }
            if a.ok {
                st.bump("deposit sequences ending in an acceptance");
                if exact_prop {
                    st.bump("exact-proportion deposits accepted");
                }
                st.mark();
                return Ok(());
            }
            if let Some(tv) = t {
                rejected_at = Some(rejected_at.map(|r| r.max(tv)).unwrap_or(tv));
            }
            st.bump("deposit attempts rejected by the protection (state verified unchanged)");
        }
        Ok(())
    }


    /// one-asset deposits into constant-product pools, liquidity_max_slippage walked over a list while
    /// the swap tolerance stays at its maximum: the pool manager swaps half and deposits (half :
    /// proceeds) against the post-swap reserves; that deposit must pass the documented ratio test
    /// with the caller's DEPOSIT tolerance
    #[allow(clippy::too_many_arguments)]
    fn run_single_dep(&self, sim: &mut Sim, user: u8, pool: u16, asset: u8, amt: &Amt, extra: &[u64], swap_default: bool, ascending: bool, st: &mut Stats) -> Result<(), String> {
        let obs = sim.obs();
        let cps: Vec<&PoolView> = obs.pools.values().filter(|p| p.all_reserves_positive() && matches!(p.kind, Kind::Cp)).collect();
        if cps.is_empty() {
            return Ok(());
        }
        let p = cps[pick(pool, cps.len())].clone();
        let oi = asset as usize % 2;
        let ai = 1 - oi;
        let sender = sim.user(user);
        let amount = amt.resolve(p.reserves[oi]).min(sim.w.balance(&sender, &p.denoms[oi]));
        let half = amount / 2;
        if half == 0 {
            return Ok(());
        }
        // the internal swap must pass its own protection at the 50% cap, else the attempt says
        // nothing about the deposit tolerance
        // with no swap tolerance sent the internal swap is held to the default 1%
        let swap_tol = if swap_default { DEC18 / 100 } else { DEC18 / 2 };
        let swap_dec = cp_swap_decision(&p, oi, ai, half, swap_tol).0;
        if swap_dec == Decision::Either || (swap_dec == Decision::MustReject && !swap_default) {
            st.bump("one-asset deposit: internal swap not decided");
            return Ok(());
        }
        let q = match sim.w.simulate(&p.id, coin(half, &p.denoms[oi]), &p.denoms[ai]) {
            Ok(q) => q,
            Err(_) => return Ok(()),
        };
        let r = q.return_amount.u128();
        let leaves = r + q.protocol_fee_amount.u128() + q.burn_fee_amount.u128();
        if r == 0 || leaves >= p.reserves[ai] {
            return Ok(());
        }
        // post-swap reserves and the deposit made for the caller
        let mut pairs = vec![(p.denoms[oi].clone(), half, p.reserves[oi] + half), (p.denoms[ai].clone(), r, p.reserves[ai] - leaves)];
        pairs.sort_by(|a, b| a.0.cmp(&b.0));
        let (da, db, pa, pb) = (big(pairs[0].1), big(pairs[1].1), big(pairs[0].2), big(pairs[1].2));
        let mut list: Vec<Option<u128>> = vec![None, Some(DEC18), Some(DEC18 / 2), Some(DEC18 / 10), Some(DEC18 / 100), Some(DEC18 / 1000), Some(0)];
        for e in extra {
            list.push(Some((*e as u128 * 1_000_000_000).min(DEC18)));
        }
        list.sort_by(|a, b| match (a, b) {
            (None, None) => std::cmp::Ordering::Equal,
            (None, _) => std::cmp::Ordering::Greater,
            (_, None) => std::cmp::Ordering::Less,
            (Some(x), Some(y)) => if ascending { x.cmp(y) } else { y.cmp(x) },
        });
        for t in list {
            let setting = t.map(|a| Decimal::new(Uint128::new(a)));
            let what = format!(
                "one-asset deposit of {amount} {} into cp {} (reserves {:?}, fees {:?}/{:?}/{:?}/{:?}e-18; the pool manager swaps {half} for {r} and deposits {half}:{r} against {:?}) with liquidity_max_slippage {:?} and swap_max_slippage {}",
                p.denoms[oi],
                p.id,
                p.reserves,
                p.protocol_fee,
                p.swap_fee,
                p.burn_fee,
                p.extra_fees,
                (p.reserves[oi] + half, p.reserves[ai] - leaves),
                setting.map(|d| d.to_string()),
                if swap_default { "not sent (default 1%)" } else { "0.5" }
            );
            let (pid, s2, f2) = (p.id.clone(), sender.clone(), vec![coin(amount, &p.denoms[oi])]);
            let a = attempt(sim, &what, |s| s.w.provide(&s2, &pid, &f2, setting, if swap_default { None } else { Some(Decimal::percent(50)) }, None, None, None))?;
            if swap_dec == Decision::MustReject {
                // the swap of the half exceeds the default 1%: the deposit must fail as a whole under
                // every deposit tolerance
                if a.ok {
                    return Err(format!("[C13] {what} (no swap_max_slippage sent): accepted although the internal swap of {half} exceeds the default 1% tolerance"));
                }
                st.bump("one-asset deposit attempts refused by the default swap tolerance");
                continue;
            }
            let predicted_reject = match t {
                Some(tv) => {
                    let (okp, near) = ratio_test(&da, &db, &pa, &pb, tv);
                    !okp && !near
                }
                None => false,
            };
            if !a.ok && !a.err.to_lowercase().contains("slippage") && !predicted_reject {
                st.bump("one-asset deposit attempts refused for other reasons");
                return Ok(());
            }
            match t {
                None => {
                    if !a.ok {
                        return Err(format!("[C13] {what}: rejected for slippage although no deposit tolerance was given and the internal swap is within the swap tolerance ({})", a.err));
                    }
                }
                Some(tv) => {
                    let omt = big(DEC18 - tv);
                    let c1 = &da * &omt * &pb <= &pa * &db * big(DEC18);
                    let c2 = &db * &omt * &pa <= &pb * &da * big(DEC18);
                    let near_abs = |an: &BigUint, ad: &BigUint, cn: &BigUint, cd: &BigUint| -> bool {
                        let l = an * &omt * cd;
                        let r = cn * ad * big(DEC18);
                        let diff = if l > r { &l - &r } else { &r - &l };
                        diff <= big(2) * ad * cd
                    };
                    if near_abs(&da, &db, &pa, &pb) || near_abs(&db, &da, &pb, &pa) {
                        st.bump("one-asset deposit attempts inside the indifference band");
                    } else {
                        if (c1 && c2) != a.ok {
                            return Err(format!(
                                "[C13] {what}: accepted={} but the deposit made for the caller is{} within the deposit tolerance of the pool ratio ({})",
                                a.ok,
                                if c1 && c2 { "" } else { " not" },
                                a.err
                            ));
                        }
                        st.bump("one-asset deposit attempts decided");
                        if !a.ok {
                            st.bump("one-asset deposit attempts rejected by the deposit tolerance");
                        }
                    }
                }
            }
            if a.ok {
                st.bump("one-asset deposit sequences ending in an acceptance");
                st.mark();
                return Ok(());
            }
        }
        Ok(())
    }

    /// routed swaps over constant-product pools: each hop must pass the same slippage test as a
    /// direct swap (default 1%, never more than 50%)
    #[allow(clippy::too_many_arguments)]
    fn run_route_tol(&self, sim: &mut Sim, user: u8, first_pool: u16, first_offer: u8, hops: &[(u16, u8)], amt: &Amt, extra: &[u64], ascending: bool, st: &mut Stats) -> Result<(), String> {
        let obs = sim.obs();
        let cps: Vec<&PoolView> = obs.pools.values().filter(|p| p.all_reserves_positive() && matches!(p.kind, Kind::Cp)).collect();
        if cps.is_empty() {
            return Ok(());
        }
        let p0 = cps[pick(first_pool, cps.len())].clone();
        let oi = first_offer as usize % 2;
        let mut chain: Vec<(PoolView, usize, usize)> = vec![(p0.clone(), oi, 1 - oi)];
        let mut cur = p0.denoms[1 - oi].clone();
        let mut used = vec![p0.id.clone()];
        for (pp, _) in hops.iter() {
            let cands: Vec<&&PoolView> = cps.iter().filter(|p| p.idx(&cur).is_some() && !used.contains(&p.id)).collect();
            if cands.is_empty() {
                break;
            }
            let p = (*cands[pick(*pp, cands.len())]).clone();
            let ii = p.idx(&cur).unwrap();
            cur = p.denoms[1 - ii].clone();
            used.push(p.id.clone());
            chain.push((p, ii, 1 - ii));
        }
        let sender = sim.user(user);
        let amount = amt.resolve(p0.reserves[oi]).min(10u128.pow(33));
        if amount == 0 || sim.w.balance(&sender, &p0.denoms[oi]) < amount {
            return Ok(());
        }
        let ops: Vec<pm::SwapOperation> = chain
            .iter()
            .map(|(p, i, j)| pm::SwapOperation::MantraSwap { token_in_denom: p.denoms[*i].clone(), token_out_denom: p.denoms[*j].clone(), pool_identifier: p.id.clone() })
            .collect();
        // boundary: the largest per-hop ratio, read from the per-hop simulations
        let mut boundary: Option<u128> = None;
        {
            let mut a = amount;
            for (p, i, j) in chain.iter() {
                match sim.w.simulate(&p.id, coin(a, &p.denoms[*i]), &p.denoms[*j]) {
                    Ok(q) => {
                        let tot = q.return_amount.u128() + q.slippage_amount.u128();
                        if tot > 0 {
                            let r = exact::to_u128(&(big(q.slippage_amount.u128()) * big(DEC18) / big(tot)));
                            boundary = Some(boundary.map(|b| b.max(r)).unwrap_or(r));
                        }
                        a = q.return_amount.u128();
                    }
                    Err(_) => return Ok(()),
                }
            }
        }
        let list = Self::swap_tolerances(extra, boundary, ascending);
        let mut rejected_at: Option<u128> = None;
        for (setting, eff) in list {
            let what = format!(
                "route of {} constant-product hop(s) {:?} offering {amount} {} with max_slippage {:?}",
                chain.len(),
                chain.iter().map(|(p, _, _)| format!("{}{:?}", p.id, p.reserves)).collect::<Vec<_>>(),
                p0.denoms[oi],
                setting.map(|d| d.to_string())
            );
            // per-hop exact decisions
            let mut a = amount;
            let mut all_accept = true;
            let mut any_reject = false;
            let mut infos = vec![];
            for (p, i, j) in chain.iter() {
                let (dec, info) = cp_swap_decision(p, *i, *j, a, eff);
                infos.push(info);
                match dec {
                    Decision::MustAccept => {}
                    Decision::MustReject => {
                        any_reject = true;
                        all_accept = false;
                        break;
                    }
                    Decision::Either => {
                        all_accept = false;
                        break;
                    }
                }
                let (x, y) = (p.reserves[*i], p.reserves[*j]);
                let gross = exact::to_u128(&(big(y) * big(a) / (big(x) + big(a))));
                let fee_sum: u128 = fee_floor(gross, p.swap_fee) + fee_floor(gross, p.protocol_fee) + fee_floor(gross, p.burn_fee) + p.extra_fees.iter().map(|s| fee_floor(gross, *s)).sum::<u128>();
                a = gross - fee_sum;
                if a == 0 {
                    all_accept = false;
                    break;
                }
            }
            let (o2, s2, d2) = (ops.clone(), sender.clone(), p0.denoms[oi].clone());
            let at = attempt(sim, &what, |s| {
                s.w.pm_exec(&s2, &pm::ExecuteMsg::ExecuteSwapOperations { operations: o2, minimum_receive: None, receiver: None, max_slippage: setting }, &[coin(amount, d2)])
            })?;
            if !at.ok && !protection_reason(&at.err) && !any_reject {
                st.bump("route attempts refused for other reasons");
                return Ok(());
            }
            if at.ok {
                if let Some(r) = rejected_at {
                    if r >= eff && !ascending {
                        return Err(format!("[C13] {what}: accepted, although the same route was rejected with the larger effective tolerance {r}e-18"));
                    }
                }
            }
            if all_accept && !at.ok {
                return Err(format!("[C13] {what}: rejected ({}) although every hop is within the tolerance ({:?})", at.err, infos));
            }
            if any_reject && at.ok {
                return Err(format!("[C13] {what}: executed although a hop's price impact plus fees exceed the effective tolerance {eff}e-18 ({:?})", infos));
            }
            if all_accept || any_reject {
                st.bump("cp route attempts decided");
            }
            if at.ok {
                st.bump("route tolerance sequences ending in an acceptance");
                st.mark();
                return Ok(());
            }
            rejected_at = Some(rejected_at.map(|r| r.max(eff)).unwrap_or(eff));
            st.bump("route attempts rejected by the protection (state verified unchanged)");
        }
        Ok(())
    }

    fn run_route(&self, sim: &mut Sim, user: u8, first_pool: u16, first_offer: u8, hops: &[(u16, u8)], amt: &Amt, st: &mut Stats) -> Result<(), String> {
        // resolve the route exactly as the pool engine does, without executing it
        let obs = sim.obs();
        let funded: Vec<&PoolView> = obs.pools.values().filter(|p| p.all_reserves_positive()).collect();
        if funded.is_empty() {
            return Ok(());
        }
        let p0 = funded[pick(first_pool, funded.len())].clone();
        let oi = first_offer as usize % p0.n();
        let ai = (oi + 1 + hops.first().map(|h| h.1 as usize).unwrap_or(0) % (p0.n() - 1)) % p0.n();
        let mut ops = vec![pm::SwapOperation::MantraSwap { token_in_denom: p0.denoms[oi].clone(), token_out_denom: p0.denoms[ai].clone(), pool_identifier: p0.id.clone() }];
        let mut cur = p0.denoms[ai].clone();
        let mut used = vec![p0.id.clone()];
        for (pp, ap) in hops.iter() {
            let cands: Vec<&&PoolView> = funded.iter().filter(|p| p.idx(&cur).is_some() && !used.contains(&p.id)).collect();
            if cands.is_empty() {
                break;
            }
            let p = cands[pick(*pp, cands.len())];
            let ii = p.idx(&cur).unwrap();
            let nx = p.denoms[(ii + 1 + *ap as usize % (p.n() - 1)) % p.n()].clone();
            ops.push(pm::SwapOperation::MantraSwap { token_in_denom: cur.clone(), token_out_denom: nx.clone(), pool_identifier: p.id.clone() });
            used.push(p.id.clone());
            cur = nx;
        }
        let sender = sim.user(user);
        let receiver: Addr = sim.user(user + 1);
        let amount = amt.resolve(p0.reserves[oi]).min(10u128.pow(33));
        if amount == 0 || sim.w.balance(&sender, &p0.denoms[oi]) < amount {
            return Ok(());
        }
        let pm_addr = sim.w.pool_manager.clone();
        let q: Result<pm::SimulateSwapOperationsResponse, String> = sim.w.query(&pm_addr, &pm::QueryMsg::SimulateSwapOperations { offer_amount: Uint128::new(amount), operations: ops.clone() });
        let q = match q {
            Ok(q) => q.return_amount.u128(),
            Err(_) => return Ok(()),
        };
        for delta in [1i128, 0, -1] {
            let min = (q as i128 + delta).max(0) as u128;
            let what = format!("route of {} hop(s) offering {amount} {} with minimum_receive {min} (quoted {q})", ops.len(), p0.denoms[oi]);
            let before = sim.w.balance(&receiver, &cur);
            let (o2, s2, r2, d2) = (ops.clone(), sender.clone(), receiver.to_string(), p0.denoms[oi].clone());
            let a = attempt(sim, &what, |s| {
                s.w.pm_exec(
                    &s2,
                    &pm::ExecuteMsg::ExecuteSwapOperations { operations: o2, minimum_receive: Some(Uint128::new(min)), receiver: Some(r2), max_slippage: Some(Decimal::percent(50)) },
                    &[coin(amount, d2)],
                )
            })?;
            if !a.ok && !a.err.to_lowercase().contains("minimum receive") && min <= q {
                st.bump("route attempts refused for other reasons");
                return Ok(());
            }
            if min > q && a.ok {
                return Err(format!("[C13] {what}: executed although it cannot deliver the minimum"));
            }
            if min <= q && !a.ok {
                return Err(format!("[C13] {what}: refused ({}) although the quoted amount reaches the minimum", a.err));
            }
            if a.ok {
                let got = sim.w.balance(&receiver, &cur) - before;
                if got < min {
                    return Err(format!("[C13] {what}: delivered {got}, less than the minimum"));
                }
                st.bump("routes accepted at minimum_receive == quote");
                if ops.len() >= 2 {
                    st.bump("multi-hop routes at the minimum_receive boundary");
                }
                st.mark();
                return Ok(());
            }
            st.bump("routes refused one unit above the quote (state verified unchanged)");
        }
        Ok(())
    }
}

impl Engine for Protections {
    type Case = Case;
    fn name(&self) -> &'static str {
        "price-protections"
    }
    fn strategy(&self, _t: Tier) -> BoxedStrategy<Case> {
        case_strat().boxed()
    }
    fn run(&self, c: &Case, st: &mut Stats) -> Result<(), String> {
        let mut sim = Sim::new(&c.cfg);
        for (cs, first) in c.creates.iter() {
            let s = sim.step(&POp::Create(cs.clone()));
            if s.ok() {
                if let Some(id) = s.post.pools.keys().find(|k| !s.pre.pools.contains_key(*k)).cloned() {
                    sim.step_targeted(first, Some(&id));
                }
            }
        }
        for op in c.prefix.iter() {
            sim.step(op);
        }
        for (i, pr) in c.probes.iter().enumerate() {
            let asc = c.ascending.get(i).copied().unwrap_or(true);
            match pr {
                Probe::SwapTol { user, pool, offer, ask, amt, extra_tols } => self.run_swap(&mut sim, *user, *pool, *offer, *ask, amt, None, extra_tols, asc, st)?,
                Probe::Belief { user, pool, offer, ask, amt, belief_ppm, extra_tols } => self.run_swap(&mut sim, *user, *pool, *offer, *ask, amt, Some(*belief_ppm), extra_tols, asc, st)?,
                Probe::Deposit { user, pool, mult_ppm, off_ppm, extra_tols } => self.run_deposit(&mut sim, *user, *pool, *mult_ppm, *off_ppm, extra_tols, asc, st)?,
                Probe::SingleDep { user, pool, asset, amt, extra_tols, swap_default } => self.run_single_dep(&mut sim, *user, *pool, *asset, amt, extra_tols, *swap_default, asc, st)?,
                Probe::RouteMin { user, first_pool, first_offer, hops, amt } => self.run_route(&mut sim, *user, *first_pool, *first_offer, hops, amt, st)?,
                Probe::RouteTol { user, first_pool, first_offer, hops, amt, extra_tols } => self.run_route_tol(&mut sim, *user, *first_pool, *first_offer, hops, amt, extra_tols, asc, st)?,
            }
        }
        Ok(())
    }
}

pub fn check(tier: Tier, seed: u64) -> PropReport {
    let mut rep = PropReport::new(
        "C13",
        tier,
        seed,
        "exploration",
        "cases = world configuration x 1-3 funded pools of both types x 0-7 generated prefix operations x 1-3 probes. A probe sends one message repeatedly with an ASCENDING (boundary-focused) or DESCENDING (monotonicity-focused) list of tolerances (a rejection must leave the complete snapshot unchanged, so the same state is probed again; the first acceptance ends the list): swaps with max_slippage in {none, 0, the state's own slippage ratio -1e-18/+0/+1e-18 (read from Simulation), generated values, 0.5, 0.5+1e-18, 1, 1.5}; swaps with a belief price at 0.8-1.3x the quoted price; routes of 1-3 constant-product hops with the same max_slippage lists (every hop decided exactly); two-asset deposits in exact pool proportion (k x reserves/gcd) or off by a chosen ratio with liquidity_max_slippage in {none, 1, 1+1e-18, 0.5, 0.01, 0, generated}; one-asset deposits into constant-product pools with swap_max_slippage 0.5 - or none, in which case the internal swap is held to the default 1% whatever the deposit tolerance is - and liquidity_max_slippage in {none, 1, 0.5, 0.1, 0.01, 0.001, 0, generated}, where the deposit made for the caller (half : proceeds of the internal swap, against the post-swap reserves from Simulation) must pass the same ratio test with the DEPOSIT tolerance; routes of 1-5 hops with minimum_receive = quote +1, +0, -1. oracles: constant-product swap accepted iff (E - net)/E <= min(tol or 1%, 50%) with E = floor(offer x reserve ratio) in exact rationals (indifference band for the contract's 18-digit price rounding); belief price: accepted iff net >= floor(offer/belief) x (1 - tol); route executed iff quote >= minimum, and delivers >= minimum; constant-product deposit accepted iff both ratio tests of the documented predicate hold (decided when the exact ratios differ by more than 2e-18, the contract's resolution), tolerance > 1 refused, no tolerance never rejects; every pool type: acceptance is monotone in the effective tolerance along the descending lists, an exact-proportion deposit is accepted under every valid tolerance; stableswap swaps: an acceptance implies the loss against the exact pre-trade marginal price (from the exact invariant) is within the tolerance. non-trivial = sequence ending in an acceptance after the checks above; distinct by the generated case",
    );
    rep.assumptions = vec!["contracts run natively inside cw-multi-test; a rejected message leaving the snapshot unchanged is verified on every attempt, which is what makes re-probing the same state sound".into()];
    let cases = match tier {
        Tier::Quick => 10_000,
        Tier::Thorough => 100_000,
    };
    let o = drive(&Protections, "C13", tier, cases, seed);
    rep.push(Protections.name(), o);
    rep.floor("cp swap attempts decided", cases / 2);
    rep.floor("cp swap attempts within 1% of the boundary", cases / 10);
    rep.floor("swap attempts rejected by the protection (state verified unchanged)", cases / 2);
    rep.floor("swap sequences ending in an acceptance", cases / 4);
    rep.floor("belief-price attempts decided", cases / 10);
    rep.floor("cp deposit attempts decided", cases / 10);
    rep.floor("cp route attempts decided", cases / 10);
    rep.floor("one-asset deposit attempts decided", cases / 20);
    rep.floor("one-asset deposit attempts rejected by the deposit tolerance", cases / 50);
    rep.floor("one-asset deposit attempts refused by the default swap tolerance", cases / 100);
    rep.floor("exact-proportion deposits accepted", cases / 50);
    rep.floor("routes accepted at minimum_receive == quote", cases / 20);
    rep.floor("multi-hop routes at the minimum_receive boundary", cases / 100);
    rep.floor("ss swap acceptances checked against the marginal price", cases / 20);
    rep
}
