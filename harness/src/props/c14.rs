//! C14 — single-asset deposit == swap-half-then-deposit, atomically, without residue.
//! Engine T (twin worlds) and engine X (fault enumeration over the internal calls).
use cosmwasm_std::{coin, Addr};
use proptest::prelude::*;
use serde::{Deserialize, Serialize};

use crate::framework::*;
use crate::pool::interp::*;
use crate::pool::ops::*;
use crate::poolview::PoolView;
use crate::world::Snapshot;

#[derive(Debug, Clone, Serialize, Deserialize)]
pub struct Case {
    pub cfg: PCfg,
    pub creates: Vec<(CreateSpec, POp)>,
    pub prefix: Vec<POp>,
    pub probe: POp,
    pub aim: u16,
}

fn two_asset_create() -> impl Strategy<Value = CreateSpec> {
    create_strat().prop_map(|mut c| {
        c.assets.truncate(2);
        c
    })
}

pub fn case_strat() -> impl Strategy<Value = Case> {
    (
        cfg_strat(),
        proptest::collection::vec((prop_oneof![4 => two_asset_create(), 1 => create_strat()], provide_strat()), 1..=3),
        proptest::collection::vec(
            op_strat(Weights { roundtrip: 0, create: 0, provide: 5, single: 2, withdraw: 2, swap: 6, route: 2, misc: 1, bad: 0 }, false),
            0..8,
        ),
        single_strat(),
        any::<u16>(),
    )
        .prop_map(|(cfg, creates, prefix, probe, aim)| {
            // one probe in seven names a position (often somebody else's, with that account as
            // receiver) but sends no unlocking duration
            let probe = match probe {
                POp::Single { user, pool, asset, amt, force_odd, swap_slip, liq_slip, receiver, lock } if aim % 7 == 3 => {
                    let lock = Some(match lock {
                        Some(l) => LockSpec { no_duration: true, existing: l.existing.or(Some(aim)), ..l },
                        None => LockSpec { duration: 86_400, id: Some((aim % 4) as u8), existing: Some(aim), no_duration: true },
                    });
                    let receiver = receiver.or(Some((user.wrapping_add(1 + (aim % 3) as u8)) % 4));
                    POp::Single { user, pool, asset, amt, force_odd, swap_slip, liq_slip, receiver, lock }
                }
                p => p,
            };
            Case { cfg, creates, prefix, probe, aim }
        })
}

fn run_prefix(c: &Case) -> Sim {
    let mut sim = Sim::new(&c.cfg);
    for (cs, first) in c.creates.iter() {
        let s = sim.step(&POp::Create(cs.clone()));
        if s.ok() {
            if let Some(id) = s.post.pools.keys().find(|k| !s.pre.pools.contains_key(*k)).cloned() {
                sim.step_targeted(first, Some(&id));
            }
        }
    }
    for op in c.prefix.iter() {
        if matches!(op, POp::Toggle { .. } | POp::SetFeeCollector { .. }) {
            continue;
        }
        sim.step(op);
    }
    sim
}

const BUFFER_KEY: &[u8] = b"single_side_liquidity_provision_buffer";

fn buffer_present(snap: &Snapshot) -> bool {
    snap.storage.iter().any(|(n, kv)| n == "pool_manager" && kv.iter().any(|(k, _)| k.windows(BUFFER_KEY.len()).any(|w| w == BUFFER_KEY)))
}

pub struct Twin;

impl Engine for Twin {
    type Case = Case;
    fn name(&self) -> &'static str {
        "single-asset-twins"
    }
    fn strategy(&self, _t: Tier) -> BoxedStrategy<Case> {
        case_strat().boxed()
    }
    fn run(&self, c: &Case, st: &mut Stats) -> Result<(), String> {
        let mut a = run_prefix(c);
        let mut b = run_prefix(c);
        let ids = a.obs().pool_ids();
        if ids.is_empty() {
            return Ok(());
        }
        let target = ids[pick(c.aim, ids.len())].clone();
        let sa = a.step_targeted(&c.probe, Some(&target));
        let (pool, deposits, receiver, lock, lock_id, liq_slip, swap_slip) = match &sa.kind {
            Kinded::Provide { pool, deposits, receiver, lock, lock_id, liq_slip, swap_slip, .. } => (pool.clone(), deposits.clone(), receiver.clone(), lock.clone(), lock_id.clone(), *liq_slip, *swap_slip),
            _ => return Ok(()),
        };
        if deposits.len() != 1 {
            return Ok(());
        }
        let p0: PoolView = sa.pre.pools[&pool].clone();
        let what = sa.describe();
        // never leaves temporary bookkeeping behind, whatever the outcome
        if buffer_present(&sa.post.snap) {
            return Err(format!("[C14] {what}: the temporary single-asset buffer is still in storage afterwards"));
        }
        if !sa.ok() && sa.pre.snap != sa.post.snap {
            return Err(format!("[C14] {what}: refused but left a trace: {}", sa.pre.snap.diff(&sa.post.snap).join("; ")));
        }
        let sender = Addr::unchecked(sa.sender.clone());
        // refusals the property names
        if p0.n() != 2 || !p0.all_reserves_positive() {
            if sa.ok() {
                return Err(format!("[C14] {what}: accepted on a pool that is empty or has more than two assets ({:?})", p0.reserves));
            }
            st.bump(if p0.n() != 2 { "refused: pool with more than two assets" } else { "refused: empty pool" });
            return Ok(());
        }
        // (an identifier without an unlocking duration is no lock: the LP simply goes to the receiver)
        let is_lock = lock.as_ref().map(|l| !l.no_duration).unwrap_or(false);
        if lock.as_ref().map(|l| l.no_duration).unwrap_or(false) {
            st.bump("probes naming a position without an unlocking duration");
        }
        if is_lock && receiver.as_ref().map(|r| *r != sa.sender).unwrap_or(false) {
            if sa.ok() {
                return Err(format!("[C14] {what}: locked LP for an account other than the sender"));
            }
            st.bump("refused: lock for another receiver");
            return Ok(());
        }
        // "can never be used to lock LP for, or expand a position of, someone other than the sender":
        // world B has not run the probe yet, so it shows everybody's positions as they were before
        if sa.ok() && lock.is_some() {
            for u in a.w.users.clone() {
                if u.as_str() == sa.sender {
                    continue;
                }
                let view = |w: &crate::world::World| -> Vec<(String, String, bool)> { w.all_positions(&u).into_iter().map(|p| (p.identifier, p.lp_asset.to_string(), p.open)).collect() };
                let (after, before) = (view(&a.w), view(&b.w));
                if after != before {
                    return Err(format!("[C14] {what}: changed the positions of another account ({}): {:?} -> {:?}", u, before, after));
                }
            }
            st.bump("locked single-asset deposits: other accounts' positions verified unchanged");
        }
        // world B: the depositor swaps half, then deposits that half plus the proceeds
        let x = deposits[0].amount.u128();
        let half = x / 2;
        let offer_denom = deposits[0].denom.clone();
        let ask_denom = p0.denoms.iter().find(|d| **d != offer_denom).unwrap().clone();
        let before_b = Snapshot::take(&b.w);
        let ask_before = b.w.balance(&sender, &ask_denom);
        let r1 = b.w.swap(&sender, &pool, coin(half, &offer_denom), &ask_denom, None, swap_slip, None);
        let mut b_ok = r1.is_ok();
        let mut b_err = r1.as_ref().err().cloned();
        if b_ok {
            let proceeds = b.w.balance(&sender, &ask_denom) - ask_before;
            let mut funds = vec![coin(half, &offer_denom)];
            if proceeds > 0 {
                funds.push(coin(proceeds, &ask_denom));
            }
            let r2 = b.w.provide(&sender, &pool, &funds, liq_slip, swap_slip, receiver.clone(), lock.as_ref().and_then(|l| l.dur()), lock_id.clone());
            b_ok = r2.is_ok();
            b_err = r2.err();
            if proceeds == 0 {
                // swapping half yields nothing: the manual second step would itself be a single-asset
                // deposit; nothing to compare
                st.bump("not comparable: the half swap returns nothing");
                return Ok(());
            }
        }
        if sa.ok() != b_ok {
            // the one documented difference: A runs its internal sanity checks on balances; a refusal
            // of A where B succeeds (or vice versa) is a violation
            return Err(format!(
                "[C14] {what}: single-asset deposit accepted={} but swap-half-then-deposit accepted={} ({:?} / {:?})",
                sa.ok(),
                b_ok,
                sa.result.as_ref().err().map(|e| e.chars().take(100).collect::<String>()),
                b_err.map(|e| e.chars().take(100).collect::<String>())
            ));
        }
        if !sa.ok() {
            st.bump("both refused");
            return Ok(());
        }
        let after_b = Snapshot::take(&b.w);
        let ob = Obs::take(&b.w);
        // same pools (reserves, supply)
        for (id, pa) in sa.post.pools.iter() {
            let pb = &ob.pools[id];
            if pa.reserves != pb.reserves || pa.supply != pb.supply {
                return Err(format!("[C14] {what}: pool {id} ends with reserves {:?} supply {} but the two-step way gives {:?} supply {}", pa.reserves, pa.supply, pb.reserves, pb.supply));
            }
        }
        // same balances for everybody, except the odd unit: kept by the contract in A, by the user in B
        let odd = x % 2;
        let mut da = std::collections::BTreeMap::new();
        let mut db = std::collections::BTreeMap::new();
        for (k, v) in sa.post.snap.balances.iter() {
            let d = *v as i128 - sa.pre.snap.balances.get(k).copied().unwrap_or(0) as i128;
            if d != 0 {
                da.insert(k.clone(), d);
            }
        }
        for (k, _) in sa.pre.snap.balances.iter() {
            if !sa.post.snap.balances.contains_key(k) {
                da.insert(k.clone(), -(sa.pre.snap.balances[k] as i128));
            }
        }
        for (k, v) in after_b.balances.iter() {
            let d = *v as i128 - before_b.balances.get(k).copied().unwrap_or(0) as i128;
            if d != 0 {
                db.insert(k.clone(), d);
            }
        }
        for (k, _) in before_b.balances.iter() {
            if !after_b.balances.contains_key(k) {
                db.insert(k.clone(), -(before_b.balances[k] as i128));
            }
        }
        if odd == 1 {
            // move the odd unit from the user (B) to the contract (A) before comparing
            let ku = (sa.sender_label.clone(), offer_denom.clone());
            let kc = ("pool_manager".to_string(), offer_denom.clone());
            *db.entry(ku.clone()).or_insert(0) -= 1;
            *db.entry(kc.clone()).or_insert(0) += 1;
            db.retain(|_, v| *v != 0);
        }
        if da != db {
            return Err(format!("[C14] {what}: balance changes {:?} differ from the two-step way {:?}", da, db));
        }
        if sa.post.snap.supply != after_b.supply {
            return Err(format!("[C14] {what}: supplies differ from the two-step way"));
        }
        // locked LP ends in a position of the sender, same in both worlds
        if lock.is_some() {
            let pa: Vec<(String, u128, bool, u64)> = a.w.all_positions(&sender).into_iter().map(|p| (p.identifier, p.lp_asset.amount.u128(), p.open, p.unlocking_duration)).collect();
            let pb: Vec<(String, u128, bool, u64)> = b.w.all_positions(&sender).into_iter().map(|p| (p.identifier, p.lp_asset.amount.u128(), p.open, p.unlocking_duration)).collect();
            if pa != pb {
                return Err(format!("[C14] {what}: positions {:?} differ from the two-step way {:?}", pa, pb));
            }
            st.bump("twins compared: locked");
        }
        st.bump("twins compared");
        st.bump(if matches!(p0.kind, crate::poolview::Kind::Cp) { "twins compared: constant product" } else { "twins compared: stableswap" });
        if odd == 1 && p0.fee_total() > 0 {
            st.bump("twins compared: odd amount with non-zero fees");
            st.mark();
        }
        Ok(())
    }
}

pub struct Faults;

impl Engine for Faults {
    type Case = Case;
    fn name(&self) -> &'static str {
        "single-asset-fault-walk"
    }
    fn strategy(&self, _t: Tier) -> BoxedStrategy<Case> {
        case_strat().boxed()
    }
    fn run(&self, c: &Case, st: &mut Stats) -> Result<(), String> {
        let mut a = run_prefix(c);
        let ids: Vec<String> = a.obs().pools.values().filter(|p| p.n() == 2 && p.all_reserves_positive()).map(|p| p.id.clone()).collect();
        if ids.is_empty() {
            return Ok(());
        }
        let target = ids[pick(c.aim, ids.len())].clone();
        let mut hit_sites = std::collections::BTreeSet::new();
        for k in 0..40u64 {
            a.w.ctl.arm(Some(k));
            let step = a.step_targeted(&c.probe, Some(&target));
            let (count, log) = a.w.ctl.disarm();
            let fault_hit = count > k;
            if buffer_present(&step.post.snap) {
                return Err(format!("[C14] {} with a failure injected at internal call {k} ({}): the temporary buffer stays in storage", step.describe(), log.last().cloned().unwrap_or_default()));
            }
            if fault_hit {
                let site = log.get(k as usize).cloned().unwrap_or_default();
                if step.ok() {
                    return Err(format!("[C14] {}: completed although internal call {k} ({site}) failed", step.describe()));
                }
                if step.pre.snap != step.post.snap {
                    return Err(format!(
                        "[C14] {} with a failure injected at internal call {k} ({site}): left a trace: {}",
                        step.describe(),
                        step.pre.snap.diff(&step.post.snap).join("; ")
                    ));
                }
                st.bump("faulted executions left no trace");
                let class: String = site.split_whitespace().next().unwrap_or("").to_string();
                hit_sites.insert(format!("{k}:{class}"));
                st.bump(&format!("fault site {class}"));
                if k >= 1 {
                    st.mark();
                }
            } else {
                // the message ran to completion without reaching the armed call
                if step.ok() {
                    st.bump("then succeeded without fault");
                    if count >= 8 {
                        st.bump("walks over >= 8 internal calls (locked variant)");
                    }
                } else {
                    st.bump("refused by validation");
                }
                break;
            }
        }
        Ok(())
    }
}

pub fn check(tier: Tier, seed: u64) -> PropReport {
    let mut rep = PropReport::new(
        "C14",
        tier,
        seed,
        "fault_enumeration",
        "cases = world configuration x 1-3 funded pools (mostly two-asset, both types) x 0-7 generated prefix operations x one single-asset deposit (amount from 2 units to several times the reserve, forced odd/even, swap and liquidity slippage settings, receiver none/self/other, lock none / new position / named position). engine T: the same values are replayed into two fresh worlds; A sends the single-asset message, B lets the same user swap floor(x/2) and then deposit floor(x/2) + proceeds with the same options; A accepted iff B accepted; pools (reserves, supply), every account's balance change (the odd unit moved from B's user to A's contract), supplies and the sender's positions must be equal; A must be refused on empty pools, pools with 3-4 assets, and locks for another receiver; the temporary buffer key must never remain in the pool manager's raw storage. engine X: in one world the message is executed with a failure injected at internal call k = 0,1,2,... (funds transfer, self-swap call, return send, burn, protocol fee, self-provide call, mint(s), farm-manager call) until it runs without reaching the armed call; every faulted execution must fail and leave the complete snapshot (balances, supplies, raw storage of all four contracts) unchanged, and no buffer behind. non-trivial = odd amount with non-zero fees compared (T); faulted execution at call index >= 1 (X)",
    );
    rep.assumptions = vec![
        "contracts run natively inside cw-multi-test, whose sub-message / reply semantics and rollback of failed sub-calls model the chain's".into(),
        "faults are injected by wrappers around the bank module, the token-factory mock and the contract entry points".into(),
    ];
    let t = match tier {
        Tier::Quick => 8000,
        Tier::Thorough => 60_000,
    };
    let o = drive(&Twin, "C14", tier, t, seed);
    rep.push(Twin.name(), o);
    let x = match tier {
        Tier::Quick => 3000,
        Tier::Thorough => 30_000,
    };
    let o = drive(&Faults, "C14", tier, x, seed);
    rep.push(Faults.name(), o);
    rep.floor("twins compared", t / 5);
    rep.floor("twins compared: odd amount with non-zero fees", t / 40);
    rep.floor("twins compared: locked", t / 100);
    rep.floor("twins compared: stableswap", t / 40);
    rep.floor("faulted executions left no trace", x * 3);
    rep.floor("walks over >= 8 internal calls (locked variant)", x / 100);
    rep.floor("refused: pool with more than two assets", t / 100);
    rep
}
