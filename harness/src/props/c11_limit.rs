//! C11, the limit clause on its own: "an LP token never has more than the configured number of
//! unexpired farms" for EVERY configured number, not only the 1-4 the farm histories use. A case
//! raises the limit (the owner may only raise it), then creates farms on two LP tokens until each
//! is over its limit, closing some in between; no time passes, so nothing expires.
use cosmwasm_std::coin;
use mantra_dex_std::farm_manager as fm;
use proptest::prelude::*;
use serde::{Deserialize, Serialize};

use crate::farm::interp::{FMon, FarmSim};
use crate::farm::ops::FCfg;
use crate::framework::*;

#[derive(Debug, Clone, Serialize, Deserialize)]
pub enum LOp {
    /// create a farm on LP token `lp` from user `user`, with an explicit identifier or not
    Create { user: u8, lp: u8, named: bool },
    /// the owner of the k-th live farm closes it
    Close { k: u16 },
    /// create farms on `lp` until one is refused (at most limit + 3 attempts)
    Fill { user: u8, lp: u8 },
}

#[derive(Debug, Clone, Serialize, Deserialize)]
pub struct Case {
    pub limit: u32,
    pub ops: Vec<LOp>,
}

pub struct FarmLimit;

fn op() -> impl Strategy<Value = LOp> {
    prop_oneof![
        5 => (0u8..4, 0u8..2, any::<bool>()).prop_map(|(user, lp, named)| LOp::Create { user, lp, named }),
        2 => any::<u16>().prop_map(|k| LOp::Close { k }),
        2 => (0u8..4, 0u8..2).prop_map(|(user, lp)| LOp::Fill { user, lp }),
    ]
}

impl Engine for FarmLimit {
    type Case = Case;
    fn name(&self) -> &'static str {
        "farm-limit"
    }
    fn strategy(&self, _t: Tier) -> BoxedStrategy<Case> {
        (prop_oneof![6 => 1u32..=9, 6 => 10u32..=14, 2 => 99u32..=102], proptest::collection::vec(op(), 2..10))
            .prop_map(|(limit, mut ops)| {
                // every case ends by filling both LP tokens
                ops.push(LOp::Fill { user: 1, lp: 0 });
                ops.push(LOp::Fill { user: 2, lp: 1 });
                Case { limit, ops }
            })
            .boxed()
    }
    fn run(&self, c: &Case, st: &mut Stats) -> Result<(), String> {
        let cfg = FCfg { fee_variant: 0, fee_amount: 0, max_farms: 1, penalty_bp: 1000, n_lp: 2 };
        let mut sim = FarmSim::new(&cfg, FMon::default());
        let owner = sim.w.owner.clone();
        let wanted = c.limit.clamp(1, 120);
        let msg = fm::ExecuteMsg::UpdateConfig {
            fee_collector_addr: None,
            epoch_manager_addr: None,
            pool_manager_addr: None,
            create_farm_fee: None,
            max_concurrent_farms: Some(wanted),
            max_farm_epoch_buffer: None,
            min_unlocking_duration: None,
            max_unlocking_duration: None,
            farm_expiration_time: None,
            emergency_unlock_penalty: None,
        };
        // the contract may refuse a number it cannot handle; whatever number it accepts it must enforce
        let limit = match sim.w.fm_exec(&owner, &msg, &[]) {
            Ok(_) => wanted,
            Err(_) => {
                st.bump("limit: configuration refused by the contract");
                1
            }
        };
        let configured: fm::Config = sim.w.query(&sim.w.farm_manager, &fm::QueryMsg::Config {}).map_err(|e| format!("[C11] Config query failed: {e}"))?;
        if configured.max_concurrent_farms != limit {
            return Err(format!("[C11] after UpdateConfig(max_concurrent_farms = {wanted}) the configured limit reads {}, expected {limit}", configured.max_concurrent_farms));
        }
        if wanted > 100 {
            st.bump("limit: a limit above 100 requested");
        }
        // model: live farms (identifier, lp index, owner)
        let mut live: Vec<(String, usize, cosmwasm_std::Addr)> = vec![];
        let mut serial = 0u32;
        let mut steps = 0u32;
        let mut create = |sim: &mut FarmSim, live: &mut Vec<(String, usize, cosmwasm_std::Addr)>, user: u8, lp: u8, named: bool, st: &mut Stats| -> Result<bool, String> {
            let k = lp as usize % sim.lps.len();
            let sender = sim.user(user);
            serial += 1;
            steps += 1;
            let ident = if named { Some(format!("n{serial}")) } else { None };
            let on_lp = live.iter().filter(|f| f.1 == k).count();
            let expect = (on_lp as u32) < limit;
            let r = sim.w.farm(
                &sender,
                fm::FarmAction::Create { params: fm::FarmParams { lp_denom: sim.lps[k].clone(), start_epoch: None, preliminary_end_epoch: None, curve: None, farm_asset: coin(1000, "uusdc"), farm_identifier: ident.clone() } },
                &[coin(1000, "uusdc")],
            );
            let ok = r.is_ok();
            if ok != expect {
                return Err(format!(
                    "[C11] step {steps}: farm creation on LP token {k} with {on_lp} unexpired farms and a configured limit of {limit}: accepted={ok}, expected {expect} ({:?})",
                    r.err().map(|e| e.chars().take(120).collect::<String>())
                ));
            }
            if ok {
                // the new farm is the one the model does not know yet
                let known: std::collections::BTreeSet<String> = live.iter().map(|f| f.0.clone()).collect();
                let mut found = None;
                let mut start_after: Option<String> = None;
                'outer: loop {
                    let page: fm::FarmsResponse = sim
                        .w
                        .query(&sim.w.farm_manager, &fm::QueryMsg::Farms { filter_by: Some(fm::FarmsBy::LpDenom(sim.lps[k].clone())), start_after: start_after.clone(), limit: Some(100) })
                        .map_err(|e| format!("[C11] Farms query failed: {e}"))?;
                    if page.farms.is_empty() {
                        break;
                    }
                    for f in page.farms.iter() {
                        if !known.contains(&f.identifier) {
                            found = Some(f.identifier.clone());
                            break 'outer;
                        }
                    }
                    start_after = page.farms.last().map(|f| f.identifier.clone());
                }
                let id = found.ok_or_else(|| format!("[C11] step {steps}: creation accepted but no new farm is listed for the LP token"))?;
                live.push((id, k, sender));
                st.bump("limit: farm created");
            } else {
                st.bump("limit: farm refused at the limit");
            }
            Ok(ok)
        };
        for o in c.ops.iter() {
            match o {
                LOp::Create { user, lp, named } => {
                    create(&mut sim, &mut live, *user, *lp, *named, st)?;
                }
                LOp::Close { k } => {
                    if live.is_empty() {
                        continue;
                    }
                    let i = pick(*k, live.len());
                    let (id, _, who) = live[i].clone();
                    sim.w.farm(&who, fm::FarmAction::Close { farm_identifier: id.clone() }, &[]).map_err(|e| format!("[C11] the owner cannot close farm {id}: {e}"))?;
                    live.remove(i);
                    st.bump("limit: farm closed");
                }
                LOp::Fill { user, lp } => {
                    let mut refused = false;
                    for j in 0..(limit + 3) {
                        if !create(&mut sim, &mut live, user.wrapping_add(j as u8), *lp, j % 3 == 0, st)? {
                            refused = true;
                            // and a second refusal, so that "one over" cannot slip through
                            create(&mut sim, &mut live, *user, *lp, false, st)?;
                            break;
                        }
                    }
                    if !refused {
                        return Err(format!("[C11] {} farm creations in a row on one LP token were all accepted with a configured limit of {limit}", limit + 3));
                    }
                    st.bump("limit: LP token filled to the limit");
                    if limit > 10 {
                        st.bump("limit: filled with a limit above 10");
                    }
                    if limit > 100 {
                        st.bump("limit: filled with a limit above 100");
                    }
                    st.mark();
                }
            }
        }
        Ok(())
    }
}
