//! C02, C03, C04, C12, C16, C20 — pool-history parts (engine P with the property's monitor on).
use crate::framework::*;
use crate::pool::monitors::Mon;
use crate::pool::ops::Weights;
use crate::props::pool_hist::PoolHist;

pub fn c02_hist() -> PoolHist {
    PoolHist {
        name: "pool-history-lp-value",
        mon: Mon { c02: true, ..Mon::default() },
        weights: Weights { roundtrip: 0, create: 1, provide: 12, single: 7, withdraw: 10, swap: 5, route: 2, misc: 2, bad: 1 },
        simple_routes: false,
        max_ops_quick: 40,
        max_ops_thorough: 80,
        generic_mark: false,
    }
}
pub fn c03_hist() -> PoolHist {
    PoolHist {
        name: "pool-history-swap-value",
        mon: Mon { c03: true, ..Mon::default() },
        weights: Weights { roundtrip: 8, create: 1, provide: 5, single: 6, withdraw: 3, swap: 10, route: 8, misc: 2, bad: 0 },
        simple_routes: false,
        max_ops_quick: 40,
        max_ops_thorough: 80,
        generic_mark: false,
    }
}
/// C19 in histories: stableswap-heavy, routes that come back to a pool
pub fn c19_hist() -> PoolHist {
    PoolHist {
        name: "pool-history-pricing",
        mon: Mon { c19: true, ..Mon::default() },
        weights: Weights { roundtrip: 4, create: 1, provide: 4, single: 5, withdraw: 2, swap: 8, route: 12, misc: 1, bad: 0 },
        simple_routes: false,
        max_ops_quick: 40,
        max_ops_thorough: 80,
        generic_mark: false,
    }
}
pub fn c04_hist() -> PoolHist {
    PoolHist {
        name: "pool-history-swap-conservation",
        mon: Mon { c04: true, ..Mon::default() },
        weights: Weights { roundtrip: 0, create: 1, provide: 5, single: 2, withdraw: 3, swap: 12, route: 10, misc: 3, bad: 0 },
        simple_routes: false,
        max_ops_quick: 40,
        max_ops_thorough: 80,
        generic_mark: false,
    }
}
pub fn c12_hist() -> PoolHist {
    PoolHist {
        name: "pool-history-quotes",
        mon: Mon { c12: true, ..Mon::default() },
        weights: Weights { roundtrip: 0, create: 1, provide: 5, single: 2, withdraw: 3, swap: 12, route: 10, misc: 3, bad: 0 },
        simple_routes: true,
        max_ops_quick: 40,
        max_ops_thorough: 80,
        generic_mark: false,
    }
}
pub fn c16_hist() -> PoolHist {
    PoolHist {
        name: "pool-history-immutability",
        mon: Mon { c16: true, ..Mon::default() },
        weights: Weights { roundtrip: 0, create: 4, provide: 6, single: 3, withdraw: 4, swap: 6, route: 3, misc: 6, bad: 3 },
        simple_routes: false,
        max_ops_quick: 40,
        max_ops_thorough: 80,
        generic_mark: true,
    }
}
pub fn c20_hist() -> PoolHist {
    PoolHist {
        name: "pool-history-rejections",
        mon: Mon { c20: true, ..Mon::default() },
        weights: Weights { roundtrip: 0, create: 2, provide: 6, single: 6, withdraw: 5, swap: 8, route: 6, misc: 3, bad: 8 },
        simple_routes: false,
        max_ops_quick: 40,
        max_ops_thorough: 80,
        generic_mark: true,
    }
}

/// run one pool-history engine with all monitors on — used only during development
pub fn all_hist() -> PoolHist {
    PoolHist {
        name: "pool-history-all",
        mon: Mon { c01: true, c02: true, c03: true, c04: true, c12: true, c16: true, c20: true, c19: true },
        weights: Weights::default(),
        simple_routes: false,
        max_ops_quick: 40,
        max_ops_thorough: 80,
        generic_mark: true,
    }
}

const WORLD_ASSUMPTIONS: [&str; 2] = [
    "contracts run natively inside cw-multi-test with mantra-common-testing's token-factory mock, as in the repository's own suites",
    "a contract panic is a rejected transaction (cw-multi-test commits storage only on success)",
];

fn hist_cases(tier: Tier, quick: u64, thorough: u64) -> u64 {
    match tier {
        Tier::Quick => quick,
        Tier::Thorough => thorough,
    }
}

pub fn check_c02(tier: Tier, seed: u64) -> PropReport {
    use crate::props::numeric::SsMint;
    let mut rep = PropReport::new(
        "C02",
        tier,
        seed,
        "exploration",
        "engine 1: generated pool histories weighted towards deposits (balanced, skewed, partial asset sets, single-asset, locked) and withdrawals (all / fractions / a few units / more than owned) on constant-product and 2-4 asset stableswap pools with mixed decimals; after every step: LP supply changes only by that pool's deposits/withdrawals; constant product: minted <= min_i floor(dep_i*S/R_i) and x1*y1*S0^2 >= x0*y0*S1^2 in big integers; stableswap: (S0+m)(D0-2) <= S0(D1+2) with D the exact root by bisection; withdrawal pays floor(R_i*a/S) or one unit less per asset, to the sender only, burns exactly a; a refused withdrawal worth >= 1 unit by an owner with withdrawals enabled is a violation; supply >= locked minimum. engine 2: compute_lp_mint_amount_for_stableswap_deposit called directly on generated (state, deposit vector, supply) with the same stableswap inequality. non-trivial = history with a deposit into a funded pool that mints > 0 or a withdrawal with a fractional share (engine 1), mint > 0 (engine 2); distinct by the generated case",
    );
    rep.assumptions = WORLD_ASSUMPTIONS.iter().map(|s| s.to_string()).collect();
    let e = c02_hist();
    let n = hist_cases(tier, 5000, 30_000);
    let o = drive(&e, "C02", tier, n, seed);
    rep.push(e.name, o);
    if tier == Tier::Thorough && fuzz_enabled() {
        // engine Z: coverage-guided campaign over serialised histories (all pool monitors in the
        // target), crash inputs re-judged by this property's engine
        let o = fuzz_stage(&e, "C02", "pool_history", 30_000, seed);
        rep.push("fuzz:pool_history", o);
    }
    let e2 = SsMint;
    let n2 = hist_cases(tier, 200_000, 5_000_000);
    let o = drive(&e2, "C02", tier, n2, seed);
    rep.push(e2.name(), o);
    rep.floor("c02: withdrawal with a fractional share", n / 4);
    rep.floor("c02: ss deposit into funded pool", n / 10);
    rep.floor("c02: ss partial-set deposit", n / 50);
    rep.floor("c02: cp deposit into funded pool", n / 10);
    rep.floor("c02: ss single-asset deposit", n / 20);
    rep.floor("mint checked: partial asset set", n2 / 20);
    rep
}

pub fn check_c03(tier: Tier, seed: u64) -> PropReport {
    use crate::props::numeric::{CpSwap, SsSwapValue};
    let mut rep = PropReport::new(
        "C03",
        tier,
        seed,
        "exploration",
        "engine 1: generated pool histories weighted towards swaps, routes (may revisit pools), single-asset deposits and round-trip programs (a trader swaps an amount through 2-4 legs among the assets of one pool and back to the start denom, forwarding all proceeds); every executed swap - direct, each hop (reserves tracked hop by hop from the response and cross-checked with the Pools query), internal swap of a single-asset deposit - must not lower x*y (constant product, big integers) or the exact Curve invariant D at 9 extra digits (stableswap, bisection); a completed round trip must not leave the trader with more of the start denom, nor with anything else. engines 2/3: compute_swap called directly on generated constant-product states (reserves 1..10^30, offers 1 unit..10x reserve, fees 0..20%) and on the C19 stableswap states, same oracles. non-trivial = history containing an executed swap with non-zero output or a completed round trip; numeric case with non-zero output; distinct by the generated case",
    );
    rep.assumptions = WORLD_ASSUMPTIONS.iter().map(|s| s.to_string()).collect();
    let e = c03_hist();
    let n = hist_cases(tier, 5000, 30_000);
    let o = drive(&e, "C03", tier, n, seed);
    rep.push(e.name, o);
    if tier == Tier::Thorough && fuzz_enabled() {
        // engine Z: coverage-guided campaign over serialised histories (all pool monitors in the
        // target), crash inputs re-judged by this property's engine
        let o = fuzz_stage(&e, "C03", "pool_history", 30_000, seed);
        rep.push("fuzz:pool_history", o);
    }
    let n2 = hist_cases(tier, 200_000, 5_000_000);
    let o = drive(&CpSwap, "C03", tier, n2, seed);
    rep.push(CpSwap.name(), o);
    let o = drive(&SsSwapValue, "C03", tier, n2, seed);
    rep.push(SsSwapValue.name(), o);
    rep.floor("c03: hop swaps", n / 2);
    rep.floor("c03: single-internal swaps", n / 4);
    rep.floor("round trips completed", n / 2);
    rep.floor("round trips with >= 3 legs", n / 20);
    rep.floor("c03: ss swaps", n);
    rep.floor("c03: cp swaps", n);
    rep
}

pub fn check_c04(tier: Tier, seed: u64) -> PropReport {
    use crate::props::numeric::CpSwap;
    let mut rep = PropReport::new(
        "C04",
        tier,
        seed,
        "exploration",
        "generated pool histories weighted towards swaps and routes of 1-5 hops (revisiting pools, sharing denoms between hops, receivers other than the sender, fee collector re-pointed to a user account, fee sets with several extra fees up to the 20% cap); for every executed swap/route, from full balance snapshots, Pools{} and supplies before/after: offer reserve += offer exactly; ask reserve -= return + protocol fee + burn fee exactly; receiver += final return; fee collector += protocol fees; supply -= burn fees; sender -= offer; every other account, pool and LP supply unchanged (equality of the complete delta maps); each fee == floor(gross * share) in exact integers with gross = return + all fees; hop k's offer == hop k-1's return. plus direct calls of compute_swap on constant-product states for the fee floors. non-trivial = swap with >= 2 non-zero fees, or route with >= 2 hops; distinct by the generated history",
    );
    rep.assumptions = WORLD_ASSUMPTIONS.iter().map(|s| s.to_string()).collect();
    let e = c04_hist();
    let n = hist_cases(tier, 5000, 30_000);
    let o = drive(&e, "C04", tier, n, seed);
    rep.push(e.name, o);
    if tier == Tier::Thorough && fuzz_enabled() {
        // engine Z: coverage-guided campaign over serialised histories (all pool monitors in the
        // target), crash inputs re-judged by this property's engine
        let o = fuzz_stage(&e, "C04", "pool_history", 30_000, seed);
        rep.push("fuzz:pool_history", o);
    }
    let n2 = hist_cases(tier, 100_000, 3_000_000);
    let o = drive(&CpSwap, "C04", tier, n2, seed ^ 0x44);
    rep.push(CpSwap.name(), o);
    rep.floor("c04: routes with >= 2 hops", n / 4);
    rep.floor("c04: swaps with >= 2 non-zero fees", n / 2);
    rep
}

pub fn check_c12(tier: Tier, seed: u64) -> PropReport {
    use crate::props::numeric::CpReverse;
    let mut rep = PropReport::new(
        "C12",
        tier,
        seed,
        "exploration",
        "engine 1: generated pool histories; immediately before every swap the harness queries Simulation and before every route (simple: each pool at most once, pools may share denoms, 1-5 hops) SimulateSwapOperations; the executed message must then move balances, reserves and supply exactly as the quote says (return, protocol fee, burn fee from the bank; swap and extra fee amounts from the response), the route must deliver exactly the quoted final amount; a quote that is refused while the swap executes, or a swap failing for a reason other than a price protection / disabled switch / unaffordable offer after a non-zero quote, is a violation. engine 2: compute_offer_amount (ReverseSimulation on constant-product pools) on generated reserves 1..10^30, asks up to 99% of the reserve, fees 0..20%: offering quote+1 must return >= the requested amount. non-trivial = quoted swap executed after >= 6 earlier steps, or route with >= 2 hops (engine 1); reverse quote answered (engine 2)",
    );
    rep.assumptions = WORLD_ASSUMPTIONS.iter().map(|s| s.to_string()).collect();
    let e = c12_hist();
    let n = hist_cases(tier, 5000, 30_000);
    let o = drive(&e, "C12", tier, n, seed);
    rep.push(e.name, o);
    if tier == Tier::Thorough && fuzz_enabled() {
        // engine Z: coverage-guided campaign over serialised histories (all pool monitors in the
        // target), crash inputs re-judged by this property's engine
        let o = fuzz_stage(&e, "C12", "pool_history", 30_000, seed);
        rep.push("fuzz:pool_history", o);
    }
    let n2 = hist_cases(tier, 200_000, 10_000_000);
    let o = drive(&CpReverse, "C12", tier, n2, seed);
    rep.push(CpReverse.name(), o);
    rep.floor("c12: direct swap quote == execution", n);
    rep.floor("c12: routes with >= 2 hops", n / 5);
    rep.floor("reverse quote checked", n2 / 2);
    rep
}

pub fn check_dev(tier: Tier, seed: u64, which: &str) -> PropReport {
    let mut rep = PropReport::new("DEV", tier, seed, "exploration", "development run");
    let e = match which {
        "c02" => c02_hist(),
        "c03" => c03_hist(),
        "c04" => c04_hist(),
        "c12" => c12_hist(),
        "c16" => c16_hist(),
        "c20" => c20_hist(),
        _ => all_hist(),
    };
    let cases = match tier {
        Tier::Quick => 600,
        Tier::Thorough => 20_000,
    };
    let o = drive(&e, "DEV", tier, cases, seed);
    rep.push(e.name, o);
    rep
}
