//! C02, C03, C04, C12, C16, C20 — pool-history parts (engine P with the property's monitor on).
use crate::framework::*;
use crate::pool::monitors::Mon;
use crate::pool::ops::Weights;
use crate::props::pool_hist::PoolHist;

pub fn c02_hist() -> PoolHist {
    PoolHist {
        name: "pool-history-lp-value",
        mon: Mon { c02: true, ..Mon::default() },
        weights: Weights { create: 1, provide: 12, single: 7, withdraw: 10, swap: 5, route: 2, misc: 2, bad: 1 },
        simple_routes: false,
        max_ops_quick: 40,
        max_ops_thorough: 80,
        generic_mark: false,
    }
}
pub fn c03_hist() -> PoolHist {
    PoolHist {
        name: "pool-history-swap-value",
        mon: Mon { c03: true, ..Mon::default() },
        weights: Weights { create: 1, provide: 5, single: 6, withdraw: 3, swap: 12, route: 8, misc: 2, bad: 0 },
        simple_routes: false,
        max_ops_quick: 40,
        max_ops_thorough: 80,
        generic_mark: false,
    }
}
pub fn c04_hist() -> PoolHist {
    PoolHist {
        name: "pool-history-swap-conservation",
        mon: Mon { c04: true, ..Mon::default() },
        weights: Weights { create: 1, provide: 5, single: 2, withdraw: 3, swap: 12, route: 10, misc: 3, bad: 0 },
        simple_routes: false,
        max_ops_quick: 40,
        max_ops_thorough: 80,
        generic_mark: false,
    }
}
pub fn c12_hist() -> PoolHist {
    PoolHist {
        name: "pool-history-quotes",
        mon: Mon { c12: true, ..Mon::default() },
        weights: Weights { create: 1, provide: 5, single: 2, withdraw: 3, swap: 12, route: 10, misc: 3, bad: 0 },
        simple_routes: true,
        max_ops_quick: 40,
        max_ops_thorough: 80,
        generic_mark: false,
    }
}
pub fn c16_hist() -> PoolHist {
    PoolHist {
        name: "pool-history-immutability",
        mon: Mon { c16: true, ..Mon::default() },
        weights: Weights { create: 4, provide: 6, single: 3, withdraw: 4, swap: 6, route: 3, misc: 6, bad: 3 },
        simple_routes: false,
        max_ops_quick: 40,
        max_ops_thorough: 80,
        generic_mark: true,
    }
}
pub fn c20_hist() -> PoolHist {
    PoolHist {
        name: "pool-history-rejections",
        mon: Mon { c20: true, ..Mon::default() },
        weights: Weights { create: 2, provide: 6, single: 6, withdraw: 5, swap: 8, route: 6, misc: 3, bad: 8 },
        simple_routes: false,
        max_ops_quick: 40,
        max_ops_thorough: 80,
        generic_mark: true,
    }
}

/// run one pool-history engine with all monitors on — used only during development
pub fn all_hist() -> PoolHist {
    PoolHist {
        name: "pool-history-all",
        mon: Mon { c01: true, c02: true, c03: true, c04: true, c12: true, c16: true, c20: true },
        weights: Weights::default(),
        simple_routes: false,
        max_ops_quick: 40,
        max_ops_thorough: 80,
        generic_mark: true,
    }
}

pub fn check_dev(tier: Tier, seed: u64, which: &str) -> PropReport {
    let mut rep = PropReport::new("DEV", tier, seed, "exploration", "development run");
    let e = match which {
        "c02" => c02_hist(),
        "c03" => c03_hist(),
        "c04" => c04_hist(),
        "c12" => c12_hist(),
        "c16" => c16_hist(),
        "c20" => c20_hist(),
        _ => all_hist(),
    };
    let cases = match tier {
        Tier::Quick => 600,
        Tier::Thorough => 20_000,
    };
    let o = drive(&e, "DEV", tier, cases, seed);
    rep.push(e.name, o);
    rep
}
