//! C20 — rejected or partially failing operations leave no trace. Engine X: from a reachable state,
//! every message kind of both managers is executed with a failure injected at each successive
//! internal bank / token-factory / contract call.
use std::collections::BTreeMap;

use cosmwasm_std::{coin, Coin, Decimal};
use mantra_dex_std::pool_manager as pm;
use proptest::prelude::*;
use serde::{Deserialize, Serialize};

use crate::farm::interp::{FMon, FarmSim};
use crate::farm::ops::*;
use crate::framework::*;
use crate::world::{fees, Snapshot, DAY};

#[derive(Debug, Clone, Serialize, Deserialize)]
pub enum PoolMsg {
    CreatePool { user: u8, stable: bool },
    ProvideBoth { user: u8, k: u8, amount: u64, lock: Option<u64> },
    ProvideSingle { user: u8, k: u8, side: bool, amount: u64, lock: Option<u64> },
    Withdraw { user: u8, k: u8, ppm: u32 },
    Swap { user: u8, k: u8, side: bool, amount: u64, to_other: bool },
    Route { user: u8, amount: u64, to_other: bool },
}

#[derive(Debug, Clone, Serialize, Deserialize)]
pub enum Probe {
    Farm(FOp),
    Pool(PoolMsg),
}

#[derive(Debug, Clone, Serialize, Deserialize)]
pub struct Case {
    pub cfg: FCfg,
    pub prefix: Vec<FOp>,
    pub probe: Probe,
}

fn pool_msg() -> impl Strategy<Value = PoolMsg> {
    let lock = || proptest::option::weighted(0.4, DAY..=10 * DAY);
    prop_oneof![
        1 => (0u8..4, any::<bool>()).prop_map(|(user, stable)| PoolMsg::CreatePool { user, stable }),
        2 => (0u8..4, 0u8..3, 1000u64..1_000_000_000, lock()).prop_map(|(user, k, amount, lock)| PoolMsg::ProvideBoth { user, k, amount, lock }),
        3 => (0u8..4, 0u8..3, any::<bool>(), 2u64..1_000_000_000, lock()).prop_map(|(user, k, side, amount, lock)| PoolMsg::ProvideSingle { user, k, side, amount, lock }),
        2 => (0u8..4, 0u8..3, 1u32..1_000_000).prop_map(|(user, k, ppm)| PoolMsg::Withdraw { user, k, ppm }),
        2 => (0u8..4, 0u8..3, any::<bool>(), 1u64..1_000_000_000, any::<bool>()).prop_map(|(user, k, side, amount, to_other)| PoolMsg::Swap { user, k, side, amount, to_other }),
        2 => (0u8..4, 1000u64..1_000_000_000, any::<bool>()).prop_map(|(user, amount, to_other)| PoolMsg::Route { user, amount, to_other }),
    ]
}

pub fn case_strat() -> impl Strategy<Value = Case> {
    (
        // pools with protocol and burn fees so that swaps make fee transfers and burns
        cfg_strat(),
        proptest::collection::vec(open_strat(), 1..4),
        proptest::collection::vec(good_farm_strat(), 0..3),
        proptest::collection::vec(op_strat(FWeights::default()), 3..18),
        prop_oneof![
            3 => pool_msg().prop_map(Probe::Pool),
            5 => op_strat(FWeights { farm: 6, expand_farm: 3, close_farm: 5, open: 5, expand_pos: 4, close_pos: 5, withdraw: 6, lock_pm: 3, claim: 6, advance: 0, config: 0, bad: 0 }).prop_map(Probe::Farm),
            // a farm creation placed right after a long wait, so that it auto-closes expired farms
            1 => good_farm_strat().prop_map(Probe::Farm),
        ],
    )
        .prop_map(|(cfg, opens, farms, rest, probe)| {
            let mut prefix = opens;
            prefix.extend(farms);
            prefix.push(FOp::Advance(Adv::Epochs(2)));
            prefix.extend(rest);
            // probes are single messages (a close preceded by a claim would be two)
            let probe = match probe {
                Probe::Farm(FOp::ClosePos { user, pos, part, by_other, .. }) => Probe::Farm(FOp::ClosePos { user, pos, part, claim_first: false, by_other }),
                Probe::Farm(FOp::WithdrawPos { user, pos, emergency, by_other, .. }) => Probe::Farm(FOp::WithdrawPos { user, pos, emergency, by_other, at_unlock: None }),
                // (the long-lived-position composite is many messages: probe its first one)
                Probe::Farm(FOp::Churn { user, lp, amount, .. }) | Probe::Farm(FOp::ExitOneOfTwo { user, lp, amount, .. }) => Probe::Farm(FOp::Open { user, lp, amount, dur: crate::world::DAY, id: None, for_other: None }),
                Probe::Farm(FOp::Crowd { user, lp, .. }) | Probe::Farm(FOp::FillPositions { user, lp }) => Probe::Farm(FOp::Open { user, lp, amount: 1000, dur: crate::world::DAY, id: None, for_other: None }),
                p => p,
            };
            Case { cfg, prefix, probe }
        })
}

pub struct FaultWalk;

fn exec_pool_msg(sim: &mut FarmSim, m: &PoolMsg) -> Result<cw_multi_test::AppResponse, String> {
    let n = sim.pool_ids.len();
    match m {
        PoolMsg::CreatePool { user, stable } => {
            let u = sim.user(*user);
            let ty = if *stable { pm::PoolType::StableSwap { amp: 100 } } else { pm::PoolType::ConstantProduct };
            sim.w.create_pool(&u, &["uweth", "ubtc"], &[18, 8], fees(10, 20, 5, &[7]), ty, None)
        }
        PoolMsg::ProvideBoth { user, k, amount, lock } => {
            let u = sim.user(*user);
            let id = sim.pool_ids[*k as usize % n].clone();
            let info = sim.w.pool(&id).unwrap();
            let funds: Vec<Coin> = info.pool_info.assets.iter().map(|c| coin(*amount as u128, &c.denom)).collect();
            sim.w.provide(&u, &id, &funds, None, None, None, *lock, None)
        }
        PoolMsg::ProvideSingle { user, k, side, amount, lock } => {
            let u = sim.user(*user);
            let id = sim.pool_ids[*k as usize % n].clone();
            let info = sim.w.pool(&id).unwrap();
            let d = info.pool_info.assets[*side as usize].denom.clone();
            sim.w.provide(&u, &id, &[coin(*amount as u128, d)], None, Some(Decimal::percent(50)), None, *lock, None)
        }
        PoolMsg::Withdraw { user, k, ppm } => {
            let u = sim.user(*user);
            let id = sim.pool_ids[*k as usize % n].clone();
            let lp = sim.w.lp_denom(&id);
            let bal = sim.w.balance(&u, &lp);
            let amt = (bal / 1_000_000 * *ppm as u128).max(1);
            sim.w.withdraw(&u, &id, amt)
        }
        PoolMsg::Swap { user, k, side, amount, to_other } => {
            let u = sim.user(*user);
            let id = sim.pool_ids[*k as usize % n].clone();
            let info = sim.w.pool(&id).unwrap();
            let (a, b) = (info.pool_info.assets[*side as usize].denom.clone(), info.pool_info.assets[1 - *side as usize].denom.clone());
            let recv = if *to_other { Some(sim.user(user + 1).to_string()) } else { None };
            sim.w.swap(&u, &id, coin(*amount as u128, a), &b, None, Some(Decimal::percent(50)), recv)
        }
        PoolMsg::Route { user, amount, to_other } => {
            let u = sim.user(*user);
            // o.f0 = uom/uusd, o.f1 = uom/uusdt, o.f2 = uusd/uusdt
            let mut ops = vec![pm::SwapOperation::MantraSwap { token_in_denom: "uusd".into(), token_out_denom: "uom".into(), pool_identifier: sim.pool_ids[0].clone() }];
            if n >= 2 && sim.pool_ids[1] != "o.fee" {
                ops.push(pm::SwapOperation::MantraSwap { token_in_denom: "uom".into(), token_out_denom: "uusdt".into(), pool_identifier: sim.pool_ids[1].clone() });
            }
            if n >= 3 && sim.pool_ids[2] != "o.fee" {
                ops.push(pm::SwapOperation::MantraSwap { token_in_denom: "uusdt".into(), token_out_denom: "uusd".into(), pool_identifier: sim.pool_ids[2].clone() });
            }
            let recv = if *to_other { Some(sim.user(user + 1).to_string()) } else { None };
            sim.w.pm_exec(
                &u,
                &pm::ExecuteMsg::ExecuteSwapOperations { operations: ops, minimum_receive: None, receiver: recv, max_slippage: Some(Decimal::percent(50)) },
                &[coin(*amount as u128, "uusd")],
            )
        }
    }
}

fn kind_of(p: &Probe) -> &'static str {
    match p {
        Probe::Pool(PoolMsg::CreatePool { .. }) => "create pool",
        Probe::Pool(PoolMsg::ProvideBoth { lock: Some(_), .. }) => "locked deposit",
        Probe::Pool(PoolMsg::ProvideBoth { .. }) => "deposit",
        Probe::Pool(PoolMsg::ProvideSingle { lock: Some(_), .. }) => "locked single-asset deposit",
        Probe::Pool(PoolMsg::ProvideSingle { .. }) => "single-asset deposit",
        Probe::Pool(PoolMsg::Withdraw { .. }) => "withdraw liquidity",
        Probe::Pool(PoolMsg::Swap { .. }) => "swap",
        Probe::Pool(PoolMsg::Route { .. }) => "route",
        Probe::Farm(FOp::Farm { .. }) => "create farm",
        Probe::Farm(FOp::ExpandFarm { .. }) => "expand farm",
        Probe::Farm(FOp::CloseFarm { .. }) => "close farm",
        Probe::Farm(FOp::Open { .. }) => "open position",
        Probe::Farm(FOp::ExpandPos { .. }) => "expand position",
        Probe::Farm(FOp::ClosePos { .. }) => "close position",
        Probe::Farm(FOp::WithdrawPos { emergency: Some(true), .. }) => "emergency withdraw",
        Probe::Farm(FOp::WithdrawPos { .. }) => "withdraw position",
        Probe::Farm(FOp::LockViaPm { .. }) => "locked deposit (named position)",
        Probe::Farm(FOp::Claim { .. }) => "claim",
        Probe::Farm(_) => "other",
    }
}

fn build(c: &Case, st: &mut Stats) -> Result<FarmSim, String> {
    let mut sim = FarmSim::new(&c.cfg, FMon { c20: true, ..FMon::default() });
    // the farm world's pools are fee-less; add one pool WITH protocol, swap, burn and extra fees so that
    // swaps, routes and single-asset deposits also make fee transfers and burns that can be failed
    {
        let u0 = sim.w.users[0].clone();
        sim.w
            .create_pool(&u0, &["uweth", "ubtc"], &[18, 8], fees(30, 20, 10, &[5]), pm::PoolType::ConstantProduct, Some("fee"))
            .map_err(|e| format!("[harness] fee pool: {e}"))?;
        for i in 0..2 {
            let ui = sim.w.users[i].clone();
            sim.w
                .provide(&ui, "o.fee", &[coin(1_000_000_000_000_000_000_000, "uweth"), coin(100_000_000_000, "ubtc")], None, None, None, None, None)
                .map_err(|e| format!("[harness] fee pool liquidity: {e}"))?;
        }
        sim.pool_ids.push("o.fee".to_string());
    }
    for op in c.prefix.iter() {
        sim.step(op, st)?;
    }
    if let Probe::Farm(FOp::Farm { .. }) = &c.probe {
        // let farms expire so that the creation closes them on the way
        if c.prefix.len() % 3 == 0 {
            sim.w.advance(60 * DAY);
        }
    }
    Ok(sim)
}

/// shape check of the tolerated failure: A (refund failed) vs B (no fault) differ exactly by the
/// refund(s) staying in the farm manager
fn tolerated_ok(a: &FarmSim, b: &FarmSim) -> Result<(), String> {
    let sa = Snapshot::take(&a.w);
    let sb = Snapshot::take(&b.w);
    let mut diff: BTreeMap<(String, String), i128> = BTreeMap::new();
    let keys: std::collections::BTreeSet<_> = sa.balances.keys().chain(sb.balances.keys()).cloned().collect();
    for k in keys {
        let x = sa.balances.get(&k).copied().unwrap_or(0) as i128 - sb.balances.get(&k).copied().unwrap_or(0) as i128;
        if x != 0 {
            diff.insert(k, x);
        }
    }
    // per denom: farm manager +r, one farm owner -r
    let mut by_denom: BTreeMap<String, Vec<(String, i128)>> = BTreeMap::new();
    for ((who, d), v) in diff.iter() {
        by_denom.entry(d.clone()).or_default().push((who.clone(), *v));
    }
    for (d, v) in by_denom.iter() {
        let fm: i128 = v.iter().filter(|(w, _)| w == "farm_manager").map(|(_, x)| *x).sum();
        let others: i128 = v.iter().filter(|(w, _)| w != "farm_manager").map(|(_, x)| *x).sum();
        if fm <= 0 || fm + others != 0 || v.iter().any(|(w, x)| w != "farm_manager" && *x > 0) {
            return Err(format!("balances differ from the fault-free run by {:?} in {d}: more than a refund staying in the farm manager", v));
        }
    }
    if sa.supply != sb.supply {
        return Err("supplies differ from the fault-free run".into());
    }
    let fa: Vec<_> = a.w.farms().into_iter().map(|f| (f.identifier, f.claimed_amount, f.farm_asset)).collect();
    let fb: Vec<_> = b.w.farms().into_iter().map(|f| (f.identifier, f.claimed_amount, f.farm_asset)).collect();
    if fa != fb {
        return Err(format!("farms differ from the fault-free run: {:?} vs {:?}", fa, fb));
    }
    for u in a.w.users.iter() {
        let pa: Vec<_> = a.w.all_positions(u).into_iter().map(|p| (p.identifier, p.lp_asset, p.open, p.expiring_at)).collect();
        let pb: Vec<_> = b.w.all_positions(u).into_iter().map(|p| (p.identifier, p.lp_asset, p.open, p.expiring_at)).collect();
        if pa != pb {
            return Err("positions differ from the fault-free run".into());
        }
    }
    Ok(())
}

impl Engine for FaultWalk {
    type Case = Case;
    fn name(&self) -> &'static str {
        "fault-walk"
    }
    fn strategy(&self, _t: Tier) -> BoxedStrategy<Case> {
        case_strat().boxed()
    }
    fn run(&self, c: &Case, st: &mut Stats) -> Result<(), String> {
        let mut scratch = Stats::default();
        scratch.frozen = true;
        let mut sim = build(c, &mut scratch)?;
        let kind = kind_of(&c.probe);
        for k in 0..48u64 {
            match &c.probe {
                Probe::Pool(m) => {
                    let pre = Snapshot::take(&sim.w);
                    sim.w.ctl.arm(Some(k));
                    let r = exec_pool_msg(&mut sim, m);
                    let (count, log) = sim.w.ctl.disarm();
                    let post = Snapshot::take(&sim.w);
                    let fault_hit = count > k;
                    let site = log.get(k as usize).cloned().unwrap_or_default();
                    let class: String = site.split_whitespace().next().unwrap_or("").to_string();
                    if !fault_hit {
                        if r.is_err() && pre != post {
                            return Err(format!("[C20] {kind} ({:?}) was rejected ({}) but left a trace: {}", c.probe, r.err().unwrap_or_default(), pre.diff(&post).join("; ")));
                        }
                        st.bump(&format!("{kind}: ran to completion ({})", if r.is_ok() { "effective" } else { "refused" }));
                        if count >= 2 {
                            st.bump("messages with >= 2 internal calls walked");
                        }
                        break;
                    }
                    st.bump(&format!("fault at {class}"));
                    st.bump(&format!("{kind}: faulted executions"));
                    if k >= 1 {
                        st.mark();
                    }
                    if r.is_ok() || pre != post {
                        return Err(format!(
                            "[C20] {kind} ({:?}) with a failure injected at internal call {k} ({site}) {} and left a trace: {}",
                            c.probe,
                            if r.is_ok() { "completed".to_string() } else { "failed".to_string() },
                            pre.diff(&post).join("; ")
                        ));
                    }
                    st.bump("faulted executions left no trace");
                }
                Probe::Farm(op) => {
                    // the farm interpreter compares the snapshot around every rejected message itself
                    // (C20 monitor) and keeps the ledger in step with what succeeded
                    // (identifier, start epoch): an expired farm may be closed and its identifier
                    // re-used by the farm the same message creates
                    let farms_before: Vec<(String, u64)> = sim.l.farms.values().map(|f| (f.id.clone(), f.start)).collect();
                    let pre = Snapshot::take(&sim.w);
                    sim.w.ctl.arm(Some(k));
                    let r = sim.step(op, &mut scratch);
                    let (count, log) = sim.w.ctl.disarm();
                    let site = log.get(k as usize).cloned().unwrap_or_default();
                    let class: String = site.split_whitespace().next().unwrap_or("").to_string();
                    if let Err(e) = r {
                        return Err(format!("{e} [failure injected at internal call {k}: {site}]"));
                    }
                    let fault_hit = count > k;
                    if !fault_hit {
                        st.bump(&format!("{kind}: ran to completion"));
                        if count >= 2 {
                            st.bump("messages with >= 2 internal calls walked");
                        }
                        break;
                    }
                    st.bump(&format!("fault at {class}"));
                    st.bump(&format!("{kind}: faulted executions"));
                    if k >= 1 {
                        st.mark();
                    }
                    let farms_after: Vec<(String, u64)> = sim.l.farms.values().map(|f| (f.id.clone(), f.start)).collect();
                    let closed_some = farms_before.iter().any(|f| !farms_after.contains(f));
                    if closed_some && site.starts_with("bank.send") {
                        // a farm was closed although an internal transfer failed: must be its refund;
                        // compare with a fault-free twin built from the same values
                        let mut twin = build(c, &mut scratch)?;
                        twin.step(op, &mut scratch)?;
                        if let Err(e) = tolerated_ok(&sim, &twin) {
                            return Err(format!("[C20] {kind} ({:?}) with a failure injected at internal call {k} ({site}) completed, but {e}", c.probe));
                        }
                        st.bump("tolerated: farm refund failed, close completed, nothing else affected");
                        break;
                    } else if closed_some {
                        return Err(format!("[C20] {kind} ({:?}) closed a farm although internal call {k} ({site}) failed", c.probe));
                    }
                    // every farm probe is a single message: an execution in which an internal call
                    // failed must not have changed anything
                    let post = Snapshot::take(&sim.w);
                    if pre != post {
                        return Err(format!(
                            "[C20] {kind} ({:?}) with a failure injected at internal call {k} ({site}) still changed state: {}",
                            c.probe,
                            pre.diff(&post).join("; ")
                        ));
                    }
                    st.bump("faulted executions left no trace");
                }
            }
        }
        Ok(())
    }
}

// ------------------------------------------------------------------------------------------------
// the tolerated failure, with a token whose transfers out of the farm manager are frozen

#[derive(Debug, Clone, Serialize, Deserialize)]
pub struct FrozenCase {
    pub cfg: FCfg,
    /// farms that will have expired: (owner, reward denom index 0..3, amount, length)
    pub old_farms: Vec<(u8, u8, u64, u8)>,
    pub positions: Vec<FOp>,
    pub claims: Vec<u8>,
    /// which reward denom is frozen
    pub frozen: u8,
    /// true: a new farm is created (auto-closing the expired ones); false: the contract owner closes them one by one
    pub via_create: bool,
    pub creator: u8,
}

pub fn frozen_case() -> impl Strategy<Value = FrozenCase> {
    (
        cfg_strat(),
        proptest::collection::vec((0u8..2, 0u8..3, 2000u64..5_000_000, 2u8..6), 1..4),
        proptest::collection::vec(open_strat(), 1..3),
        proptest::collection::vec(0u8..4, 0..3),
        0u8..3,
        any::<bool>(),
        0u8..4,
    )
        .prop_map(|(mut cfg, old_farms, positions, claims, frozen, via_create, creator)| {
            cfg.max_farms = 3;
            cfg.n_lp = 1;
            // the creation fee must not be in a reward denom: its transfer to the fee collector is an
            // ordinary message of the creation, not a refund
            if cfg.fee_variant % 3 == 1 {
                cfg.fee_variant = 2;
            }
            FrozenCase { cfg, old_farms, positions, claims, frozen, via_create, creator }
        })
}

pub struct FrozenRefund;

fn build_frozen(c: &FrozenCase, st: &mut Stats) -> Result<FarmSim, String> {
    let mut sim = FarmSim::new(&c.cfg, FMon { c20: true, ..FMon::default() });
    for p in c.positions.iter() {
        sim.step(p, st)?;
    }
    for (owner, reward, amount, len) in c.old_farms.iter() {
        sim.step(&FOp::Farm { user: *owner, lp: 0, reward: *reward, amount: *amount, start: Some(1), len: Some(*len as u16), id: None, funds: Funds::Exact }, st)?;
    }
    sim.step(&FOp::Advance(Adv::Epochs(3)), st)?;
    for u in c.claims.iter() {
        sim.step(&FOp::Claim { user: *u, until: Until::None }, st)?;
    }
    // long after every farm ended and expired
    sim.w.advance(80 * DAY);
    Ok(sim)
}

fn close_expired(sim: &mut FarmSim, c: &FrozenCase, st: &mut Stats) -> Result<(), String> {
    if c.via_create {
        // reward in ubtc... unless ubtc is the frozen one, then uusdc (the new farm's own funding is
        // a transfer INTO the farm manager and is not affected by the freeze)
        sim.step(&FOp::Farm { user: c.creator, lp: 0, reward: 2, amount: 5000, start: Some(1), len: Some(3), id: None, funds: Funds::Exact }, st)
    } else {
        let n = sim.l.farms.len();
        for _ in 0..n {
            sim.step(&FOp::CloseFarm { by: 1, farm: 0 }, st)?;
        }
        Ok(())
    }
}

impl Engine for FrozenRefund {
    type Case = FrozenCase;
    fn name(&self) -> &'static str {
        "frozen-refund-twins"
    }
    fn strategy(&self, _t: Tier) -> BoxedStrategy<FrozenCase> {
        frozen_case().boxed()
    }
    fn run(&self, c: &FrozenCase, st: &mut Stats) -> Result<(), String> {
        let mut scratch = Stats::default();
        scratch.frozen = true;
        let mut a = build_frozen(c, &mut scratch)?;
        let mut b = build_frozen(c, &mut scratch)?;
        let farms_before: Vec<crate::farm::model::MFarm> = a.l.farms.values().cloned().collect();
        if farms_before.is_empty() {
            return Ok(());
        }
        let frozen_denom = crate::farm::interp::REWARD_DENOMS[c.frozen as usize % 3].to_string();
        let fm_addr = a.w.farm_manager.to_string();
        *a.w.ctl.frozen.borrow_mut() = Some((fm_addr, frozen_denom.clone()));
        close_expired(&mut a, c, &mut scratch)?;
        *a.w.ctl.frozen.borrow_mut() = None;
        close_expired(&mut b, c, &mut scratch)?;
        // which farms got closed (same in both worlds, the close must not be blocked)
        let closed_a: Vec<String> = farms_before.iter().filter(|f| !a.l.farms.contains_key(&f.id)).map(|f| f.id.clone()).collect();
        let closed_b: Vec<String> = farms_before.iter().filter(|f| !b.l.farms.contains_key(&f.id)).map(|f| f.id.clone()).collect();
        if closed_a != closed_b {
            return Err(format!("[C20] with transfers of {frozen_denom} out of the farm manager frozen, farms {:?} were closed; without the freeze {:?}", closed_a, closed_b));
        }
        let fa: Vec<String> = a.w.farms().into_iter().map(|f| f.identifier).collect();
        let fb: Vec<String> = b.w.farms().into_iter().map(|f| f.identifier).collect();
        if fa != fb {
            return Err(format!("[C20] farms left after closing differ: frozen {:?} vs normal {:?}", fa, fb));
        }
        // only refunds in the frozen denom may be missing: they stay in the farm manager
        let sa = Snapshot::take(&a.w);
        let sb = Snapshot::take(&b.w);
        let keys: std::collections::BTreeSet<_> = sa.balances.keys().chain(sb.balances.keys()).cloned().collect();
        let mut stuck: i128 = 0;
        for k in keys {
            let d = sa.balances.get(&k).copied().unwrap_or(0) as i128 - sb.balances.get(&k).copied().unwrap_or(0) as i128;
            if d == 0 {
                continue;
            }
            if k.1 != frozen_denom {
                return Err(format!(
                    "[C20] closing farms {:?} while refunds in {frozen_denom} fail changed the balance of {} in {} by {d}: a failing refund must not affect any other farm's refund or balance",
                    closed_a, k.0, k.1
                ));
            }
            if k.0 == "farm_manager" {
                stuck += d;
            } else if d > 0 {
                return Err(format!("[C20] {} gained {d} {frozen_denom} through a failing refund", k.0));
            }
        }
        let expected_stuck: u128 = farms_before.iter().filter(|f| closed_a.contains(&f.id) && f.reward_denom == frozen_denom).map(|f| f.funded.saturating_sub(a_claimed(&farms_before, &f.id))).sum();
        if stuck != expected_stuck as i128 {
            return Err(format!("[C20] {stuck} {frozen_denom} stayed in the farm manager, the failed refunds amount to {expected_stuck}"));
        }
        st.bump("frozen-refund twins compared");
        if stuck > 0 {
            st.bump("twins where a refund actually failed");
            let other_refunds = farms_before.iter().any(|f| closed_a.contains(&f.id) && f.reward_denom != frozen_denom && f.funded > f.claimed);
            if other_refunds {
                st.bump("twins where a refund failed while another farm's refund had to go through");
                st.mark();
            }
        }
        Ok(())
    }
}

fn a_claimed(farms: &[crate::farm::model::MFarm], id: &str) -> u128 {
    farms.iter().find(|f| f.id == id).map(|f| f.claimed).unwrap_or(0)
}

pub fn check(tier: Tier, seed: u64) -> PropReport {
    use crate::props::farmprops::c20_farm_engine;
    use crate::props::poolprops::c20_hist;
    let mut rep = PropReport::new(
        "C20",
        tier,
        seed,
        "fault_enumeration",
        "engine X: state reached by a generated farm/pool history of 5-25 operations (positions, farms, claims, time) x one message of every kind (create pool, plain / locked / single-asset / locked single-asset deposit, withdraw liquidity, swap with another receiver, 1-3 hop route, create farm (incl. one that closes expired farms on the way), expand farm, close farm, open / expand / close / withdraw / emergency-withdraw position, locked deposit into a named position, claim) executed with a failure injected at internal call k = 0,1,2,... (every bank send/burn, token-factory mint/burn/create-denom and contract call the message makes, in order) until it runs without reaching the armed call; oracle: a faulted execution must leave the complete snapshot (all balances, supplies, raw storage of the four contracts) equal to the one before; the only tolerated change is when the failing call is the refund of a farm being closed: then the message completes and the world must equal a fault-free twin built from the same values except that the refund stays in the farm manager. engine T (frozen token): 1-3 farms with different reward denoms are left to expire, then closed (by a farm creation that auto-closes them, or one by one by the contract owner) in a world where every transfer of one reward denom out of the farm manager fails, and in a twin without the freeze: the same farms must be closed, only refunds in the frozen denom may be missing (they stay in the farm manager, exactly their amount), every other balance - in particular the other farms' refunds - must be identical. engines P and F (rejection part): in generated pool and farm histories with many invalid messages every rejected message - by validation, authorisation, limits, slippage, arithmetic - is followed by the same snapshot comparison. non-trivial = faulted execution at call index >= 1 (X); history with >= 1 swap, >= 1 withdrawal and pools sharing a denom (P); every farm history counts its rejected messages (F)",
    );
    rep.assumptions = vec![
        "cw-multi-test's transactional semantics (sub-message rollback, reply_on_error) model the chain's; they are part of the trusted base".into(),
        "faults are injected by wrappers around the bank module, the token-factory mock and the contract entry points; queries never fail".into(),
    ];
    let x = match tier {
        Tier::Quick => 4000,
        Tier::Thorough => 40_000,
    };
    let o = drive(&FaultWalk, "C20", tier, x, seed);
    rep.push(FaultWalk.name(), o);
    let fz = match tier {
        Tier::Quick => 2000,
        Tier::Thorough => 20_000,
    };
    let o = drive(&FrozenRefund, "C20", tier, fz, seed);
    rep.push(FrozenRefund.name(), o);
    rep.floor("twins where a refund failed while another farm's refund had to go through", fz / 20);
    let e = c20_hist();
    let n = match tier {
        Tier::Quick => 3000,
        Tier::Thorough => 20_000,
    };
    let o = drive(&e, "C20", tier, n, seed);
    rep.push(e.name, o);
    let f = c20_farm_engine();
    let o = drive(&f, "C20", tier, n, seed);
    rep.push(f.name, o);
    rep.floor("faulted executions left no trace", x * 2);
    rep.floor("messages with >= 2 internal calls walked", x / 3);
    rep.floor("tolerated: farm refund failed, close completed, nothing else affected", x / 100);
    rep.floor("c20: rejected messages compared", n * 5);
    for k in ["create pool", "deposit", "locked deposit", "single-asset deposit", "locked single-asset deposit", "withdraw liquidity", "swap", "route", "create farm", "expand farm", "close farm", "open position", "expand position", "close position", "emergency withdraw", "withdraw position", "claim"] {
        rep.floor(&format!("{k}: faulted executions"), 5);
    }
    rep
}
