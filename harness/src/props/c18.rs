//! C18 — epochs partition time. Engine N: direct calls into epoch_manager::contract on mock deps,
//! oracle = u128 arithmetic written from the property text.
use std::panic::{catch_unwind, AssertUnwindSafe};

use cosmwasm_std::testing::{message_info, mock_dependencies, mock_env, MockApi};
use cosmwasm_std::{coins, from_json, Timestamp, Uint64};
use mantra_dex_std::epoch_manager::{
    ConfigResponse, EpochConfig, EpochResponse, ExecuteMsg, InstantiateMsg, QueryMsg,
};
use proptest::prelude::*;
use serde::{Deserialize, Serialize};

use crate::framework::*;

/// largest block time in seconds a cosmwasm `Timestamp` (u64 nanoseconds) can carry
pub const MAX_TS: u64 = u64::MAX / 1_000_000_000;
const DAY: u64 = 86_400;

#[derive(Debug, Clone, Serialize, Deserialize)]
pub struct Upd {
    pub at: u64,
    pub genesis: u64,
    pub duration: u64,
    pub by_owner: bool,
    pub with_funds: bool,
}

#[derive(Debug, Clone, Serialize, Deserialize)]
pub struct Case {
    pub inst_time: u64,
    pub genesis: u64,
    pub duration: u64,
    pub now: u64,
    pub dt: u64,
    pub id: u64,
    pub upd: Option<Upd>,
    /// sub-second part of the block time of every query (block times are nanoseconds; epochs are
    /// defined in whole seconds, so this must never show in an id or a start time)
    #[serde(default)]
    pub sub_ns: u32,
}

pub struct C18;

thread_local! {
    static SUB_NS: std::cell::Cell<u32> = const { std::cell::Cell::new(0) };
}

fn duration_strat() -> impl Strategy<Value = u64> {
    prop_oneof![
        3 => Just(DAY),
        1 => Just(DAY - 1),
        1 => Just(DAY + 1),
        1 => 0u64..DAY,
        4 => DAY..40 * DAY,
        1 => DAY..u64::MAX / 4,
        1 => prop_oneof![Just(u64::MAX), Just(u64::MAX - 1), Just(1u64 << 63), Just(MAX_TS), Just(MAX_TS + 1)],
    ]
}

/// (genesis, now, id) given inst_time and duration, built to sit on boundaries
fn case_strat() -> impl Strategy<Value = Case> {
    (
        prop_oneof![4 => 1_600_000_000u64..1_900_000_000, 1 => 0u64..MAX_TS, 1 => (MAX_TS - 400 * DAY)..=MAX_TS],
        duration_strat(),
        // genesis offset class
        prop_oneof![
            3 => Just((0i8, 0u64)),
            1 => Just((-1, 1u64)),
            1 => Just((1, 1u64)),
            3 => (Just(1i8), 0u64..100 * DAY),
            1 => (Just(-1i8), 0u64..100 * DAY),
            1 => (Just(2i8), 0u64..1000), // near u64::MAX
        ],
        // now: k epochs + jitter
        (0u64..5000, prop_oneof![Just(-1i64), Just(0), Just(1), -100_000i64..100_000, Just(i64::MIN)]),
        // dt for monotonicity
        prop_oneof![Just(0u64), Just(1), 0u64..3 * DAY, Just(u64::MAX)],
        // id class (and the sub-second part of query block times)
        (0u8..8, 0u64..1000, any::<u64>(), prop_oneof![2 => Just(0u32), 1 => Just(1u32), 1 => Just(999_999_999u32), 2 => 0u32..1_000_000_000]),
        proptest::option::weighted(
            0.5,
            (
                0u64..50 * DAY,
                prop_oneof![2 => Just(-1i64), 2 => Just(0), 2 => Just(1), 3 => -1_000_000i64..10_000_000, 2 => Just(7i64)],
                duration_strat(),
                proptest::bool::weighted(0.8),
                proptest::bool::weighted(0.15),
            ),
        ),
    )
        .prop_map(|(inst_time, duration, (gsign, goff), (k, jit), dt, (idc, idsmall, idrand, sub_ns), upd)| {
            let genesis = match gsign {
                0 => inst_time,
                -1 => inst_time.saturating_sub(goff),
                1 => inst_time.saturating_add(goff),
                _ => u64::MAX - goff,
            };
            // now = genesis + k*duration + jitter, clamped to what a block time can be
            let base = (genesis as u128 + k as u128 * duration as u128).min(MAX_TS as u128) as u64;
            let now = if jit == i64::MIN {
                // random earlier time
                inst_time
            } else if jit < 0 {
                base.saturating_sub((-jit) as u64)
            } else {
                base.saturating_add(jit as u64).min(MAX_TS)
            };
            let dt = if dt == u64::MAX { duration } else { dt };
            let lim = if duration == 0 { 0 } else { (u64::MAX - genesis) / duration };
            let id = match idc {
                0 => idsmall,
                1 => k,
                2 => k + 1,
                3 => lim,
                4 => lim.saturating_add(1),
                5 => lim.saturating_sub(1),
                6 => {
                    // boundary where seconds fit u64 but nanoseconds do not
                    if duration == 0 { 0 } else { (MAX_TS.saturating_sub(genesis)) / duration + (idsmall % 3) }
                }
                _ => idrand,
            };
            let upd = upd.map(|(at, goff, d2, by_owner, with_funds)| {
                let at_t = now.saturating_add(at).min(MAX_TS);
                // one class re-submits the stored genesis (possibly long past by then)
                let g2 = if goff == 7 || goff == -7 {
                    genesis
                } else if goff < 0 {
                    at_t.saturating_sub((-goff) as u64)
                } else {
                    at_t.saturating_add(goff as u64)
                };
                Upd { at: at_t, genesis: g2, duration: d2, by_owner, with_funds }
            });
            Case { inst_time, genesis, duration, now, dt, id, upd, sub_ns }
        })
}

struct Sut {
    deps: cosmwasm_std::OwnedDeps<
        cosmwasm_std::testing::MockStorage,
        cosmwasm_std::testing::MockApi,
        cosmwasm_std::testing::MockQuerier,
    >,
    owner: cosmwasm_std::Addr,
}

fn env_at(t: u64) -> cosmwasm_std::Env {
    let mut e = mock_env();
    e.block.time = Timestamp::from_seconds(t);
    e
}

impl Sut {
    fn q<T: serde::de::DeserializeOwned>(&self, t: u64, q: QueryMsg) -> Result<T, String> {
        let deps = self.deps.as_ref();
        let mut env = env_at(t);
        if t < MAX_TS {
            env.block.time = env.block.time.plus_nanos(SUB_NS.with(|c| c.get()) as u64 % 1_000_000_000);
        }
        match catch_unwind(AssertUnwindSafe(|| epoch_manager::contract::query(deps, env, q))) {
            Ok(Ok(b)) => from_json::<T>(&b).map_err(|e| format!("undecodable response: {e}")),
            Ok(Err(e)) => Err(e.to_string()),
            Err(p) => Err(format!("PANIC: {}", crate::world::panic_msg(p))),
        }
    }
}

/// the oracle: (config, now) -> current epoch id, in u128
fn expect_current(genesis: u64, duration: u64, now: u64) -> Option<u128> {
    if now < genesis {
        None
    } else {
        Some((now as u128 - genesis as u128) / duration as u128)
    }
}
fn expect_start(genesis: u64, duration: u64, id: u64) -> u128 {
    genesis as u128 + id as u128 * duration as u128
}

fn check_queries(
    s: &Sut,
    genesis: u64,
    duration: u64,
    now: u64,
    dt: u64,
    id: u64,
    st: &mut Stats,
) -> Result<(), String> {
    // CurrentEpoch
    let cur: Result<EpochResponse, String> = s.q(now, QueryMsg::CurrentEpoch {});
    match (expect_current(genesis, duration, now), &cur) {
        (None, Ok(r)) => {
            return Err(format!(
                "CurrentEpoch succeeded before genesis: now={now} genesis={genesis} -> {:?}",
                r.epoch
            ))
        }
        (None, Err(_)) => st.bump("current: before genesis -> refused"),
        (Some(e), Ok(r)) => {
            if r.epoch.id as u128 != e {
                return Err(format!(
                    "CurrentEpoch id {} != floor((now-genesis)/duration) = {e} (now={now} genesis={genesis} duration={duration})",
                    r.epoch.id
                ));
            }
            let start = expect_start(genesis, duration, r.epoch.id);
            if r.epoch.start_time.seconds() as u128 != start
                || r.epoch.start_time.nanos() as u128 != start * 1_000_000_000
            {
                return Err(format!(
                    "CurrentEpoch start_time {} != genesis + id*duration = {start}",
                    r.epoch.start_time
                ));
            }
            // now in [start(cur), start(cur+1))
            if !(start <= now as u128 && (now as u128) < start + duration as u128) {
                return Err(format!("now {now} not in [start, start+duration) = [{start}, {})", start + duration as u128));
            }
            // the reported start of the next epoch, when representable, is start + duration
            let next: Result<EpochResponse, String> = s.q(now, QueryMsg::Epoch { id: r.epoch.id + 1 });
            let nstart = start + duration as u128;
            match next {
                Ok(n) => {
                    if nstart > MAX_TS as u128 || n.epoch.start_time.nanos() as u128 != nstart * 1_000_000_000 {
                        return Err(format!("Epoch(cur+1).start {} != {nstart}", n.epoch.start_time));
                    }
                }
                Err(_) => {
                    if nstart <= MAX_TS as u128 {
                        return Err(format!("Epoch(cur+1) refused although start {nstart} is representable"));
                    }
                    st.bump("epoch(cur+1): unrepresentable -> refused");
                }
            }
            let rem = (now as u128 - genesis as u128) % duration as u128;
            if rem == 0 || rem == duration as u128 - 1 {
                st.bump("current: on a boundary second");
                st.mark();
            } else {
                st.bump("current: inside an epoch");
            }
            // monotone in now, +1 after exactly `duration`
            let now2 = now.saturating_add(dt).min(MAX_TS);
            let cur2: Result<EpochResponse, String> = s.q(now2, QueryMsg::CurrentEpoch {});
            match cur2 {
                Ok(r2) => {
                    if r2.epoch.id < r.epoch.id {
                        return Err(format!("epoch id decreased: {} at {now} -> {} at {now2}", r.epoch.id, r2.epoch.id));
                    }
                    let e2 = expect_current(genesis, duration, now2).unwrap();
                    if r2.epoch.id as u128 != e2 {
                        return Err(format!("CurrentEpoch id {} != {e2} at now2={now2}", r2.epoch.id));
                    }
                    if now2 - now == duration && r2.epoch.id != r.epoch.id + 1 {
                        return Err(format!("after exactly one duration the id went {} -> {}", r.epoch.id, r2.epoch.id));
                    }
                }
                Err(e) => return Err(format!("CurrentEpoch failed at later time {now2}: {e}")),
            }
        }
        (Some(e), Err(err)) => {
            return Err(format!(
                "CurrentEpoch refused at/after genesis (now={now} genesis={genesis} duration={duration}, expected id {e}): {err}"
            ))
        }
    }
    // Epoch{id}
    let ep: Result<EpochResponse, String> = s.q(now, QueryMsg::Epoch { id });
    let start = expect_start(genesis, duration, id);
    match ep {
        Ok(r) => {
            if r.epoch.id != id {
                return Err(format!("Epoch({id}) returned id {}", r.epoch.id));
            }
            if start > MAX_TS as u128 {
                return Err(format!(
                    "Epoch({id}) returned start {} although genesis + id*duration = {start} s is not representable (wrapped value)",
                    r.epoch.start_time
                ));
            }
            if r.epoch.start_time.nanos() as u128 != start * 1_000_000_000 {
                return Err(format!("Epoch({id}).start {} != {start}", r.epoch.start_time));
            }
            st.bump("epoch(id): representable");
        }
        Err(_) => {
            if start <= MAX_TS as u128 {
                return Err(format!("Epoch({id}) refused although start {start} is representable"));
            }
            st.bump("epoch(id): overflow -> refused");
            st.mark();
        }
    }
    Ok(())
}

impl Engine for C18 {
    type Case = Case;
    fn name(&self) -> &'static str {
        "epoch-arith"
    }
    fn strategy(&self, _tier: Tier) -> BoxedStrategy<Case> {
        case_strat().boxed()
    }
    fn run(&self, c: &Case, st: &mut Stats) -> Result<(), String> {
        SUB_NS.with(|x| x.set(c.sub_ns));
        if c.sub_ns % 1_000_000_000 != 0 {
            st.bump("queries at a block time with a sub-second part");
        }
        let api = MockApi::default();
        let owner = api.addr_make("owner");
        let stranger = api.addr_make("stranger");
        let mut s = Sut { deps: mock_dependencies(), owner: owner.clone() };
        let msg = InstantiateMsg {
            owner: owner.to_string(),
            epoch_config: EpochConfig {
                duration: Uint64::new(c.duration),
                genesis_epoch: Uint64::new(c.genesis),
            },
        };
        let accept = c.genesis >= c.inst_time && c.duration >= DAY;
        let r = {
            let deps = s.deps.as_mut();
            let info = message_info(&owner, &[]);
            catch_unwind(AssertUnwindSafe(|| {
                epoch_manager::contract::instantiate(deps, env_at(c.inst_time), info, msg)
            }))
        };
        let ok = matches!(r, Ok(Ok(_)));
        if ok != accept {
            return Err(format!(
                "instantiate(genesis={}, duration={}) at block time {}: accepted={ok}, expected {accept} (duration >= 1 day and genesis not in the past)",
                c.genesis, c.duration, c.inst_time
            ));
        }
        if !accept {
            st.bump("instantiate: rejected");
            st.mark();
            return Ok(());
        }
        st.bump("instantiate: accepted");
        let cfg: ConfigResponse = s.q(c.inst_time, QueryMsg::Config {})?;
        if cfg.epoch_config.duration.u64() != c.duration || cfg.epoch_config.genesis_epoch.u64() != c.genesis {
            return Err("Config{} does not report the instantiated configuration".into());
        }
        check_queries(&s, c.genesis, c.duration, c.now, c.dt, c.id, st)?;

        if let Some(u) = &c.upd {
            let before: ConfigResponse = s.q(u.at, QueryMsg::Config {})?;
            let sender = if u.by_owner { s.owner.clone() } else { stranger.clone() };
            let funds = if u.with_funds { coins(1, "uom") } else { vec![] };
            let accept = u.by_owner && !u.with_funds && u.duration >= DAY && u.genesis >= u.at;
            let r = {
                let deps = s.deps.as_mut();
                let info = message_info(&sender, &funds);
                catch_unwind(AssertUnwindSafe(|| {
                    epoch_manager::contract::execute(
                        deps,
                        env_at(u.at),
                        info,
                        ExecuteMsg::UpdateConfig {
                            epoch_config: Some(EpochConfig {
                                duration: Uint64::new(u.duration),
                                genesis_epoch: Uint64::new(u.genesis),
                            }),
                        },
                    )
                }))
            };
            let ok = matches!(r, Ok(Ok(_)));
            if ok != accept {
                return Err(format!(
                    "UpdateConfig(genesis={}, duration={}) at {} by_owner={} funds={}: accepted={ok}, expected {accept}",
                    u.genesis, u.duration, u.at, u.by_owner, u.with_funds
                ));
            }
            let after: ConfigResponse = s.q(u.at, QueryMsg::Config {})?;
            if accept {
                st.bump("update: accepted");
                if after.epoch_config.duration.u64() != u.duration || after.epoch_config.genesis_epoch.u64() != u.genesis {
                    return Err("accepted UpdateConfig not reflected by Config{}".into());
                }
                // the new configuration obeys the same arithmetic
                let now = (u.genesis as u128 + (c.now % 977) as u128 * u.duration as u128 + (c.dt % 3) as u128)
                    .min(MAX_TS as u128) as u64;
                check_queries(&s, u.genesis, u.duration, now, c.dt, c.id, st)?;
            } else {
                st.bump("update: rejected");
                if u.genesis == c.genesis && u.genesis < u.at && u.by_owner && !u.with_funds && u.duration >= DAY {
                    st.bump("update: stored genesis re-submitted after it passed -> refused");
                }
                st.mark();
                if after != before {
                    return Err("rejected UpdateConfig changed Config{}".into());
                }
            }
        }
        Ok(())
    }
}

pub fn check(tier: Tier, seed: u64) -> PropReport {
    let mut rep = PropReport::new(
        "C18",
        tier,
        seed,
        "exploration",
        "cases = (instantiate time, genesis, duration, block time, later block time, epoch id, optional UpdateConfig) generated with boundary classes (now = genesis + k*duration + {-1,0,+1}; durations around one day; genesis around the block time; ids around the u64-seconds and u64-nanoseconds overflow limits); oracle = u128 arithmetic from the property text; non-trivial = block time on the first/last second of an epoch, an epoch id whose start is not representable, or a rejected configuration; distinct by the generated numbers",
    );
    rep.assumptions = vec![
        "epoch_manager::contract::{instantiate,execute,query} are called directly on cosmwasm mock dependencies".into(),
        "a contract panic (overflow-checks are on in the repository's release profile) is a clean refusal, as a wasm trap is on chain".into(),
    ];
    let cases = match tier {
        Tier::Quick => 2_000_000,
        Tier::Thorough => 20_000_000,
    };
    let o = drive(&C18, "C18", tier, cases, seed);
    rep.push("epoch-arith", o);
    rep.floor("current: on a boundary second", cases / 50);
    rep.floor("epoch(id): overflow -> refused", cases / 100);
    rep.floor("current: before genesis -> refused", cases / 100);
    rep.floor("update: rejected", cases / 100);
    rep.floor("update: accepted", cases / 100);
    rep.floor("update: stored genesis re-submitted after it passed -> refused", cases / 200);
    rep
}
