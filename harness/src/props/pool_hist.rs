//! Engine P: pool histories on the World with monitors after every step.
use proptest::prelude::*;

use crate::framework::*;
use crate::pool::interp::*;
use crate::pool::monitors::*;
use crate::pool::ops::*;
use crate::poolview::Kind;

pub struct PoolHist {
    pub name: &'static str,
    pub mon: Mon,
    pub weights: Weights,
    pub simple_routes: bool,
    pub max_ops_quick: usize,
    pub max_ops_thorough: usize,
    /// mark a history non-trivial by the generic rule (otherwise only the monitors mark)
    pub generic_mark: bool,
}

fn classify(step: &Step, st: &mut Stats) {
    let k = match &step.kind {
        Kinded::Create { .. } => "create",
        Kinded::Provide { single: true, .. } => "single-asset deposit",
        Kinded::Provide { lock: Some(_), .. } => "locked deposit",
        Kinded::Provide { .. } => "deposit",
        Kinded::Withdraw { .. } => "withdraw",
        Kinded::Swap { .. } => "swap",
        Kinded::Route { .. } => "route",
        Kinded::Donate { .. } => "donate",
        Kinded::Toggle { .. } => "toggle",
        Kinded::Config => "config",
        Kinded::Advance => "advance",
        Kinded::Bad(_) => "invalid message",
    };
    st.bump(&format!("op {k}: {}", if step.ok() { "ok" } else { "rejected" }));
    if let (Err(e), true) = (&step.result, std::env::var("DEXCHECK_WHY").is_ok()) {
        let last = e.lines().last().unwrap_or("");
        let norm: String = last.chars().map(|c| if c.is_ascii_digit() { '#' } else { c }).take(70).collect();
        let extra = match &step.kind {
            Kinded::Swap { pool, slip, offer, .. } => {
                let p = &step.pre.pools[pool];
                let oi = p.idx(&offer.denom).unwrap();
                let frac = if p.reserves[oi] > 0 { offer.amount.u128() as f64 / p.reserves[oi] as f64 } else { -1.0 };
                format!(" [{} slip={:?} mixed={} frac={:.0e} skew={}]", kind_label(p), slip.map(|s| s.to_string()), p.min_dec() != p.max_dec(), frac, p.skew().min(9999))
            }
            _ => String::new(),
        };
        st.bump(&format!("why {k}: {norm}{extra}"));
    }
}

pub fn run_monitors(mon: &Mon, sim: &Sim, step: &Step, st: &mut Stats) -> Result<(), String> {
    if mon.c01 {
        mon_c01(sim, step, st)?;
    }
    if mon.c02 {
        mon_c02(sim, step, st)?;
    }
    if mon.c03 {
        mon_c03(sim, step, st)?;
    }
    if mon.c04 {
        mon_c04(sim, step, st)?;
    }
    if mon.c12 {
        mon_c12(sim, step, st)?;
    }
    if mon.c16 {
        mon_c16(sim, step, st)?;
    }
    if mon.c20 {
        mon_c20(sim, step, st)?;
    }
    if mon.c19 {
        mon_c19(sim, step, st)?;
    }
    Ok(())
}

/// features of a whole history, used for the non-triviality rules and generator floors
#[derive(Default)]
pub struct HistFeatures {
    pub swaps_ok: u32,
    pub withdrawals_ok: u32,
    pub routes_ok: u32,
    pub routes_shared: u32,
    pub single_odd_ok: u32,
    pub single_ok: u32,
    pub deposits_ok: u32,
    pub locked_ok: u32,
    pub full_drains: u32,
    pub rejected: u32,
    pub pools: usize,
    pub shared_denoms: bool,
    pub ss_pools: usize,
    pub cp_pools: usize,
}

pub fn features_update(f: &mut HistFeatures, step: &Step) {
    if !step.ok() {
        f.rejected += 1;
        return;
    }
    match &step.kind {
        Kinded::Swap { .. } => f.swaps_ok += 1,
        Kinded::Withdraw { pool, .. } => {
            f.withdrawals_ok += 1;
            if let Some(p) = step.post.pools.get(pool) {
                // every holder withdrew everything: only the locked minimum is left
                if p.supply == p.min_liquidity() {
                    f.full_drains += 1;
                }
            }
        }
        Kinded::Route { hops, .. } => {
            f.routes_ok += 1;
            if hops.len() >= 2 {
                f.routes_shared += 1;
            }
        }
        Kinded::Provide { single: true, deposits, .. } => {
            f.single_ok += 1;
            if deposits.len() == 1 && deposits[0].amount.u128() % 2 == 1 {
                f.single_odd_ok += 1;
            }
        }
        Kinded::Provide { lock: Some(_), .. } => {
            f.locked_ok += 1;
            f.deposits_ok += 1;
        }
        Kinded::Provide { .. } => f.deposits_ok += 1,
        _ => {}
    }
}

pub fn features_final(f: &mut HistFeatures, sim: &mut Sim) {
    let obs = sim.obs();
    f.pools = obs.pools.len();
    let mut seen = std::collections::BTreeMap::new();
    for p in obs.pools.values() {
        match p.kind {
            Kind::Cp => f.cp_pools += 1,
            Kind::Ss { .. } => f.ss_pools += 1,
        }
        for d in &p.denoms {
            *seen.entry(d.clone()).or_insert(0) += 1;
        }
    }
    f.shared_denoms = seen.values().any(|c| *c >= 2);
}

impl PoolHist {
    /// C03's corollary: a trader who swaps an amount out and back (through 1-3 pools, closing through
    /// any pool that holds both denoms or by retracing the path) never ends with more than they had.
    #[allow(clippy::too_many_arguments)]
    fn round_trip(&self, sim: &mut Sim, f: &mut HistFeatures, st: &mut Stats, user: u8, pool: u16, offer: u8, path: &[(u16, u8)], ppm: u32, close: u16) -> Result<(), String> {
        use crate::poolview::PoolView;
        let obs = sim.obs();
        let funded: Vec<PoolView> = obs.pools.values().filter(|p| p.all_reserves_positive()).cloned().collect();
        if funded.is_empty() {
            return Ok(());
        }
        let p0 = &funded[pick(pool, funded.len())];
        let oi = offer as usize % p0.n();
        let start = p0.denoms[oi].clone();
        let who = sim.user(user);
        let label = format!("user{}", (user as usize).min(3));
        let label = if (user as usize) < 4 { label } else { "owner".to_string() };
        let amount = crate::pool::ops::Amt::Rel { ppm }.resolve(p0.reserves[oi]).min(sim.w.balance(&who, &start));
        if amount == 0 {
            return Ok(());
        }
        let before = obs.snap.clone();
        // plan the legs, all inside pool p0: start -> d1 -> (d2 ->) ... -> start. Only a trip confined
        // to one pool is implied by "no swap lowers the pool's invariant" (between pools whose prices
        // differ, a profitable loop is ordinary arbitrage, not a defect).
        let _ = close;
        let mut legs: Vec<(String, String, String)> = vec![];
        let mut cur_i = oi;
        let mut picks: Vec<u8> = vec![path.first().map(|h| h.1).unwrap_or(0)];
        for h in path.iter().skip(1) {
            picks.push(h.1);
        }
        for ap in picks.iter() {
            let next_i = (cur_i + 1 + *ap as usize % (p0.n() - 1)) % p0.n();
            if next_i == oi {
                break;
            }
            legs.push((p0.id.clone(), p0.denoms[cur_i].clone(), p0.denoms[next_i].clone()));
            cur_i = next_i;
        }
        if legs.is_empty() {
            let next_i = (oi + 1) % p0.n();
            legs.push((p0.id.clone(), p0.denoms[oi].clone(), p0.denoms[next_i].clone()));
            cur_i = next_i;
        }
        legs.push((p0.id.clone(), p0.denoms[cur_i].clone(), start.clone()));
        let mut amt = amount;
        let mut hops_known: Vec<&'static str> = vec![];
        let mut pools_used = std::collections::BTreeSet::new();
        let mut all_cp = true;
        for (k, (pid, din, dout)) in legs.iter().enumerate() {
            let b0 = sim.w.balance(&who, dout);
            let step = sim.step(&POp::SwapExact { user, pool_id: pid.clone(), offer_denom: din.clone(), ask_denom: dout.clone(), amount: amt, huge_belief: false });
            classify(&step, st);
            features_update(f, &step);
            run_monitors(&self.mon, sim, &step, st)?;
            if !step.ok() {
                st.bump("round trips abandoned (a leg was refused)");
                let _ = k;
                return Ok(());
            }
            if let Ok((execs, _)) = swap_execs(&step) {
                for x in execs.iter() {
                    if matches!(x.before.kind, Kind::Ss { .. }) {
                        all_cp = false;
                    }
                    if let Ok(Some((key, _))) = classify_swap_value(x, "round trip") {
                        hops_known.push(key);
                    }
                }
            }
            pools_used.insert(pid.clone());
            amt = sim.w.balance(&who, dout) - b0;
            if amt == 0 {
                break;
            }
            // between the legs the trader may throw in degenerate swaps: offers of the asset they
            // will buy back that are too small to buy a single unit (they deliver nothing; with a
            // belief price nothing falls short of, the protection lets them through). Whatever
            // they do to the pool, the trip as a whole must not end with a profit.
            if k + 1 < legs.len() && close % 3 != 0 {
                for _ in 0..(1 + close % 3) {
                    let o = sim.obs();
                    let Some(pv) = o.pools.get(pid) else { break };
                    let (Some(si), Some(di)) = (pv.idx(&start), pv.idx(dout)) else { break };
                    if si == di || pv.reserves[di] == 0 {
                        break;
                    }
                    // the largest offer that still buys nothing on a constant-product pool is just
                    // under reserve(start)/reserve(other); elsewhere one unit
                    let d = if matches!(pv.kind, Kind::Cp) { (pv.reserves[si] / pv.reserves[di]).saturating_sub(1).max(1) } else { 1 };
                    let d = d.min(sim.w.balance(&who, &start));
                    if d == 0 {
                        break;
                    }
                    let quoted_nothing = sim.w.simulate(pid, cosmwasm_std::coin(d, &start), dout).map(|q| q.return_amount.is_zero()).unwrap_or(false);
                    if !quoted_nothing {
                        break;
                    }
                    let step = sim.step(&POp::SwapExact { user, pool_id: pid.clone(), offer_denom: start.clone(), ask_denom: dout.clone(), amount: d, huge_belief: true });
                    classify(&step, st);
                    features_update(f, &step);
                    run_monitors(&self.mon, sim, &step, st)?;
                    if step.ok() {
                        st.bump("round trips with a swap that delivers nothing in between");
                    }
                }
            }
        }
        let after = sim.obs().snap;
        let b_start0 = before.bal(&label, &start);
        let b_start1 = after.bal(&label, &start);
        st.bump("round trips completed");
        st.mark();
        if legs.len() >= 3 {
            st.bump("round trips with >= 3 legs");
        }
        if b_start1 > b_start0 {
            let msg = format!("[C03] round trip by {label}: swapped {amount} {start} through {:?} and ended with {} more than they started with", legs, b_start1 - b_start0);
            if !all_cp && !hops_known.is_empty() {
                st.known(hops_known[0], || msg);
            } else {
                return Err(msg);
            }
        }
        // nothing else was gained on the way
        for ((who_l, d), v1) in after.balances.iter() {
            if who_l == &label && d != &start && *v1 > before.bal(&label, d) {
                let gained = *v1 - before.bal(&label, d);
                // proceeds of a leg that returned 0 stay with the trader: only possible when the trip broke off
                if amt != 0 {
                    return Err(format!("[C03] round trip by {label} through {:?}: gained {gained} {d} on the way", legs));
                }
            }
        }
        Ok(())
    }

    /// run a history; `after` lets a property add its own per-history bookkeeping
    pub fn run_history(&self, case: &PoolCase, st: &mut Stats) -> Result<HistFeatures, String> {
        let mut sim = Sim::new(&case.cfg);
        let mut f = HistFeatures::default();
        for (cs, first) in case.creates.iter() {
            let step = sim.step(&POp::Create(cs.clone()));
            classify(&step, st);
            features_update(&mut f, &step);
            run_monitors(&self.mon, &sim, &step, st)?;
            if step.ok() {
                let new_id = step.post.pools.keys().find(|k| !step.pre.pools.contains_key(*k)).cloned();
                if let Some(id) = new_id {
                    let step = sim.step_targeted(first, Some(&id));
                    classify(&step, st);
                    features_update(&mut f, &step);
                    run_monitors(&self.mon, &sim, &step, st)?;
                }
            }
        }
        for op in case.ops.iter() {
            if let POp::RoundTrip { user, pool, offer, path, ppm, close } = op {
                self.round_trip(&mut sim, &mut f, st, *user, *pool, *offer, path, *ppm, *close)?;
                continue;
            }
            let step = sim.step(op);
            classify(&step, st);
            features_update(&mut f, &step);
            run_monitors(&self.mon, &sim, &step, st)?;
        }
        features_final(&mut f, &mut sim);
        st.bump("histories");
        st.add("steps", sim.steps_done as u64);
        if f.routes_shared > 0 {
            st.bump("histories with a multi-hop route");
        }
        if f.single_odd_ok > 0 {
            st.bump("histories with an odd single-asset deposit");
        }
        if f.full_drains > 0 {
            st.bump("histories with a full drain");
        }
        if f.shared_denoms {
            st.bump("histories with pools sharing a denom");
        }
        if f.locked_ok > 0 {
            st.bump("histories with a locked deposit");
        }
        if f.ss_pools > 0 && f.cp_pools > 0 {
            st.bump("histories with both pool types");
        }
        Ok(f)
    }
}

impl Engine for PoolHist {
    type Case = PoolCase;
    fn name(&self) -> &'static str {
        self.name
    }
    fn strategy(&self, tier: Tier) -> BoxedStrategy<PoolCase> {
        let max = match tier {
            Tier::Quick => self.max_ops_quick,
            Tier::Thorough => self.max_ops_thorough,
        };
        case_strat(self.weights, self.simple_routes, max).boxed()
    }
    fn run(&self, case: &PoolCase, st: &mut Stats) -> Result<(), String> {
        let f = self.run_history(case, st)?;
        // generic non-triviality of a pool history: something was traded and withdrawn, on pools that share a denom
        if self.generic_mark && f.swaps_ok + f.routes_ok >= 1 && f.withdrawals_ok >= 1 && f.pools >= 2 && f.shared_denoms {
            st.mark();
        }
        Ok(())
    }
}
