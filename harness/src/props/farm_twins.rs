//! Engine T for the farm side: one generated history replayed into several worlds.
//!  * C07: claim-schedule independence (claim every epoch / once at the end / arbitrary splits)
//!  * C09: the emergency penalty never increases as time passes after closing
use std::collections::BTreeMap;

use cosmwasm_std::Addr;
use proptest::prelude::*;
use serde::{Deserialize, Serialize};

use crate::farm::interp::{FMon, FarmSim};
use crate::farm::ops::*;
use crate::framework::*;

// ------------------------------------------------------------------------------------------------
// C07

#[derive(Debug, Clone, Serialize, Deserialize)]
pub struct SchedCase {
    pub cfg: FCfg,
    pub farms: Vec<FOp>,
    pub body: Vec<FOp>,
    /// per advance of the body: who claims in the split schedule, and how far back (until = now - back)
    pub splits: Vec<(u8, u8)>,
}

fn body_op() -> impl Strategy<Value = FOp> {
    prop_oneof![
        4 => open_strat(),
        3 => (0u8..4, any::<u16>(), lp_amount()).prop_map(|(user, pos, amount)| FOp::ExpandPos { by: 0, user, pos, amount }),
        5 => (1u8..4).prop_map(|n| FOp::Advance(Adv::Epochs(n))),
    ]
}

pub fn sched_case() -> impl Strategy<Value = SchedCase> {
    (
        cfg_strat(),
        proptest::collection::vec(good_farm_strat(), 1..4),
        proptest::collection::vec(open_strat(), 1..4),
        proptest::collection::vec(body_op(), 4..24),
        proptest::collection::vec((0u8..4, 0u8..4), 24),
    )
        .prop_map(|(cfg, farms, opens, rest, splits)| {
            let mut body = opens;
            body.extend(rest);
            SchedCase { cfg, farms, body, splits }
        })
}

pub struct Schedules;

#[derive(Clone, Copy, PartialEq)]
enum Mode {
    EveryEpoch,
    AtEnd,
    Splits,
}

type Payouts = BTreeMap<(String, String), u128>;

fn claim_and_count(sim: &mut FarmSim, who: &Addr, until: Option<u64>, pay: &mut Payouts, st: &mut Stats) -> Result<(), String> {
    let mut denoms: Vec<String> = crate::farm::interp::REWARD_DENOMS.iter().map(|s| s.to_string()).collect();
    denoms.extend(sim.lps.clone());
    let before: Vec<u128> = denoms.iter().map(|d| sim.w.balance(who, d)).collect();
    sim.do_claim(who, until, st)?;
    for (i, d) in denoms.iter().enumerate() {
        let after = sim.w.balance(who, d);
        if after > before[i] {
            *pay.entry((sim.label(who.as_str()), d.clone())).or_insert(0) += after - before[i];
        }
    }
    Ok(())
}

fn run_world(c: &SchedCase, mode: Mode, st: &mut Stats) -> Result<(Payouts, u64, bool), String> {
    let mut scratch = Stats::default();
    scratch.frozen = mode != Mode::Splits; // count classes once
    let stx: &mut Stats = if mode == Mode::Splits { st } else { &mut scratch };
    let mut sim = FarmSim::new(&c.cfg, FMon { c07: true, ..FMon::default() });
    let mut pay: Payouts = BTreeMap::new();
    for f in c.farms.iter() {
        sim.step(f, stx)?;
    }
    let mut epochs = 0u64;
    let mut adv_idx = 0usize;
    let mut weight_change_between_claims = false;
    let mut changed_since_claim = false;
    for op in c.body.iter() {
        match op {
            FOp::Advance(Adv::Epochs(n)) => {
                let n = (*n as u64).min(25u64.saturating_sub(epochs));
                if n == 0 {
                    continue;
                }
                epochs += n;
                match mode {
                    Mode::EveryEpoch => {
                        for _ in 0..n {
                            sim.w.advance(crate::world::DAY);
                            for u in sim.w.users.clone() {
                                if !sim.l.open_positions_of(u.as_str()).is_empty() {
                                    claim_and_count(&mut sim, &u, None, &mut pay, stx)?;
                                }
                            }
                        }
                    }
                    Mode::AtEnd => sim.w.advance(n * crate::world::DAY),
                    Mode::Splits => {
                        sim.w.advance(n * crate::world::DAY);
                        let (who, back) = c.splits[adv_idx % c.splits.len()];
                        let u = sim.user(who);
                        if !sim.l.open_positions_of(u.as_str()).is_empty() {
                            let e = sim.epoch();
                            let cursor = sim.l.last_claimed.get(u.as_str()).copied().unwrap_or(0);
                            let until = e.saturating_sub(back as u64).max(cursor);
                            claim_and_count(&mut sim, &u, Some(until), &mut pay, stx)?;
                            if changed_since_claim {
                                weight_change_between_claims = true;
                            }
                            changed_since_claim = false;
                        }
                    }
                }
                adv_idx += 1;
            }
            other => {
                sim.step(other, stx)?;
                changed_since_claim = true;
            }
        }
    }
    for u in sim.w.users.clone() {
        if !sim.l.open_positions_of(u.as_str()).is_empty() {
            claim_and_count(&mut sim, &u, None, &mut pay, stx)?;
        }
    }
    Ok((pay, epochs, weight_change_between_claims))
}

impl Engine for Schedules {
    type Case = SchedCase;
    fn name(&self) -> &'static str {
        "claim-schedule-twins"
    }
    fn strategy(&self, _t: Tier) -> BoxedStrategy<SchedCase> {
        sched_case().boxed()
    }
    fn run(&self, c: &SchedCase, st: &mut Stats) -> Result<(), String> {
        let (a, _, _) = run_world(c, Mode::EveryEpoch, st)?;
        let (b, _, _) = run_world(c, Mode::AtEnd, st)?;
        let (s, epochs, changed) = run_world(c, Mode::Splits, st)?;
        if a != b {
            return Err(format!("[C07] claiming every epoch paid {:?}, claiming once at the end paid {:?}", a, b));
        }
        if s != b {
            return Err(format!("[C07] claiming in splits with until_epoch paid {:?}, claiming once at the end paid {:?}", s, b));
        }
        st.bump("schedule triples compared");
        let total: u128 = b.values().sum();
        if total > 0 {
            st.bump("schedule triples with payouts");
        }
        if epochs >= 3 && changed && total > 0 {
            st.bump("schedule triples spanning >= 3 epochs with a weight change between claims");
            st.mark();
        }
        Ok(())
    }
}

// ------------------------------------------------------------------------------------------------
// C09

#[derive(Debug, Clone, Serialize, Deserialize)]
pub struct DecayCase {
    pub cfg: FCfg,
    pub amount: u128,
    pub dur: u64,
    pub farms: Vec<FOp>,
    /// seconds between opening and closing (None: never closed — the position stays open)
    pub close_after: Option<u32>,
    /// fractions of the unlocking duration after which the two worlds exit, in ppm (may exceed 10^6)
    pub t1_ppm: u32,
    pub t2_ppm: u32,
}

pub fn decay_case() -> impl Strategy<Value = DecayCase> {
    (
        cfg_strat(),
        prop_oneof![2 => 1u128..100, 4 => 100u128..1_000_000_000_000, 2 => (1u128..1000, 12u32..18).prop_map(|(m, e)| m * 10u128.pow(e))],
        prop_oneof![3 => Just(DAY), 3 => DAY..=10 * DAY, 2 => DAY..=YEAR, 1 => Just(YEAR), 1 => Just(HALF_YEAR)],
        proptest::collection::vec(good_farm_strat(), 0..3),
        proptest::option::weighted(0.85, 0u32..400_000),
        0u32..1_200_000,
        0u32..1_200_000,
    )
        .prop_map(|(cfg, amount, dur, farms, close_after, a, b)| DecayCase { cfg, amount, dur, farms, close_after, t1_ppm: a.min(b), t2_ppm: a.max(b) })
}

pub struct Decay;

fn exit_world(c: &DecayCase, ppm: u32, st: &mut Stats) -> Result<Option<u128>, String> {
    let mut sim = FarmSim::new(&c.cfg, FMon { c09: true, ..FMon::default() });
    // farms are created by other users so that the owner's balance shows the penalty alone
    for f in c.farms.iter() {
        if let FOp::Farm { user, lp, reward, amount, start, len, id, funds } = f {
            let f2 = FOp::Farm { user: 1 + user % 3, lp: *lp, reward: *reward, amount: *amount, start: *start, len: *len, id: *id, funds: funds.clone() };
            sim.step(&f2, st)?;
        }
    }
    let owner = sim.user(0);
    let lp = sim.lp(0);
    sim.step(&FOp::Open { user: 0, lp: 0, amount: c.amount, dur: c.dur, id: None, for_other: None }, st)?;
    if sim.l.open_positions_of(owner.as_str()).is_empty() {
        return Ok(None);
    }
    if let Some(s) = c.close_after {
        sim.w.advance(s as u64);
        sim.step(&FOp::ClosePos { user: 0, pos: 0, part: None, claim_first: true, by_other: false }, st)?;
    }
    let wait = (c.dur as u128 * ppm as u128 / 1_000_000) as u64;
    sim.w.advance(wait);
    let before = sim.w.balance(&owner, &lp);
    sim.step(&FOp::WithdrawPos { user: 0, pos: 0, emergency: Some(true), by_other: false, at_unlock: None }, st)?;
    let got = sim.w.balance(&owner, &lp) - before;
    if !sim.l.positions_of(owner.as_str()).is_empty() {
        return Ok(None); // the exit was refused (e.g. penalty arithmetic overflow): nothing to compare
    }
    Ok(Some(c.amount - got))
}

impl Engine for Decay {
    type Case = DecayCase;
    fn name(&self) -> &'static str {
        "emergency-decay-twins"
    }
    fn strategy(&self, _t: Tier) -> BoxedStrategy<DecayCase> {
        decay_case().boxed()
    }
    fn run(&self, c: &DecayCase, st: &mut Stats) -> Result<(), String> {
        let mut scratch = Stats::default();
        scratch.frozen = true;
        let p1 = exit_world(c, c.t1_ppm, &mut scratch)?;
        let p2 = exit_world(c, c.t2_ppm, st)?;
        let (p1, p2) = match (p1, p2) {
            (Some(a), Some(b)) => (a, b),
            _ => {
                st.bump("decay pairs not comparable (an exit was refused)");
                return Ok(());
            }
        };
        st.bump("decay pairs compared");
        if p2 > p1 {
            return Err(format!(
                "[C09] the penalty grew as time passed: {p1} after {} ppm of the unlocking duration, {p2} after {} ppm (amount {}, duration {}, closed after {:?}s)",
                c.t1_ppm, c.t2_ppm, c.amount, c.dur, c.close_after
            ));
        }
        if c.close_after.is_some() && c.t2_ppm >= 1_000_000 && p2 != 0 {
            return Err(format!("[C09] penalty {p2} although the closed position had fully unlocked ({} ppm of the duration)", c.t2_ppm));
        }
        if p1 > 0 {
            st.bump("decay pairs with a non-zero first penalty");
            st.mark();
        }
        if c.close_after.is_some() && c.t1_ppm < 1_000_000 && c.t2_ppm >= 1_000_000 {
            st.bump("decay pairs straddling the unlock instant");
        }
        Ok(())
    }
}
