//! Engine N for constant-product pricing and stableswap minting: direct calls into the public
//! functions of pool_manager::helpers, exact big-integer oracles.
use std::panic::{catch_unwind, AssertUnwindSafe};

use cosmwasm_std::{coin, Uint128};
use mantra_dex_std::pool_manager::{PoolInfo, PoolStatus, PoolType};
use num_bigint::BigUint;
use num_traits::Zero;
use proptest::prelude::*;
use serde::{Deserialize, Serialize};

use crate::exact::{self, big};
use crate::framework::*;
use crate::pool::ops::{valid_fees, FeeSpec};
use crate::poolview::fee_floor;
use crate::props::c19;

// ------------------------------------------------------------------------------------------------
// constant product: value never decreases, fee floors, reverse quote

#[derive(Debug, Clone, Serialize, Deserialize)]
pub struct CpCase {
    pub x: (u32, u8),
    pub y: (u32, u8),
    /// offer: ppm of x (0 = use `offer_units`)
    pub offer_ppm: u32,
    pub offer_units: u8,
    /// ask for the reverse quote: ppm of y (up to 990000)
    pub ask_ppm: u32,
    pub ask_units: u8,
    pub fees: FeeSpec,
}

fn mag() -> impl Strategy<Value = (u32, u8)> {
    (1u32..1_000_000, 0u8..=24)
}
fn val(m: &(u32, u8)) -> u128 {
    m.0 as u128 * 10u128.pow(m.1 as u32)
}

pub fn cp_case() -> impl Strategy<Value = CpCase> {
    (
        mag(),
        mag(),
        prop_oneof![4 => 1u32..100_000, 3 => 100_000u32..1_000_000, 2 => 1_000_000u32..10_000_000, 1 => Just(0u32)],
        1u8..8,
        prop_oneof![4 => 1u32..100_000, 3 => 100_000u32..990_000, 1 => Just(0u32)],
        1u8..8,
        valid_fees(),
    )
        .prop_map(|(x, y, offer_ppm, offer_units, ask_ppm, ask_units, fees)| CpCase { x, y, offer_ppm, offer_units, ask_ppm, ask_units, fees })
}

fn cp_info(x: u128, y: u128, fees: &FeeSpec) -> PoolInfo {
    PoolInfo {
        pool_identifier: "p".into(),
        asset_denoms: vec!["a".into(), "b".into()],
        lp_denom: "factory/x/p.LP".into(),
        asset_decimals: vec![6, 6],
        assets: vec![coin(x, "a"), coin(y, "b")],
        pool_type: PoolType::ConstantProduct,
        pool_fees: fees.to_pool_fee(),
        status: PoolStatus::default(),
    }
}

pub struct CpSwap;

impl Engine for CpSwap {
    type Case = CpCase;
    fn name(&self) -> &'static str {
        "cp-swap-numeric"
    }
    fn strategy(&self, _t: Tier) -> BoxedStrategy<CpCase> {
        cp_case().boxed()
    }
    fn run(&self, c: &CpCase, st: &mut Stats) -> Result<(), String> {
        let (x, y) = (val(&c.x), val(&c.y));
        let offer = if c.offer_ppm == 0 {
            c.offer_units as u128
        } else {
            exact::to_u128(&(big(x) * big(c.offer_ppm as u128) / big(1_000_000))).max(1)
        };
        let info = cp_info(x, y, &c.fees);
        let oc = coin(offer, "a");
        let r = catch_unwind(AssertUnwindSafe(|| pool_manager::helpers::compute_swap(&info, &oc, "b")));
        let comp = match r {
            Ok(Ok(c)) => c,
            _ => {
                st.bump("swap refused");
                return Ok(());
            }
        };
        let (ret, sw, pr, bu, ex) = (
            comp.return_amount.u128(),
            comp.swap_fee_amount.u128(),
            comp.protocol_fee_amount.u128(),
            comp.burn_fee_amount.u128(),
            comp.extra_fees_amount.u128(),
        );
        let gross = ret + sw + pr + bu + ex;
        if gross > y {
            return Err(format!("[C19/C03] constant-product output {gross} exceeds the reserve {y}"));
        }
        // C03: x*y never decreases (the reserve falls by what leaves the contract)
        let y1 = y - ret - pr - bu;
        let x1 = x + offer;
        if big(x1) * big(y1) < big(x) * big(y) {
            return Err(format!("[C03] constant-product swap lowers x*y: ({x},{y}) -> ({x1},{y1}) offer {offer} fees {:?}", c.fees));
        }
        // gross is the exact floor of y*offer/(x+offer): never more
        let exact_gross = big(y) * big(offer) / big(x1);
        if big(gross) > exact_gross {
            return Err(format!("[C03] constant-product gross output {gross} > floor(y*offer/(x+offer)) = {exact_gross}"));
        }
        // C04: fee floors
        let p = c.fees.to_pool_fee();
        let want_extra: u128 = p.extra_fees.iter().map(|f| fee_floor(gross, f.share.atomics().u128())).sum();
        for (name, got, want) in [
            ("swap", sw, fee_floor(gross, p.swap_fee.share.atomics().u128())),
            ("protocol", pr, fee_floor(gross, p.protocol_fee.share.atomics().u128())),
            ("burn", bu, fee_floor(gross, p.burn_fee.share.atomics().u128())),
            ("extra", ex, want_extra),
        ] {
            if got != want {
                return Err(format!("[C04] {name} fee {got} != floor(gross {gross} * share) = {want}"));
            }
        }
        st.bump("cp swap checked");
        if ret > 0 {
            st.mark();
        }
        Ok(())
    }
}

pub struct CpReverse;

impl Engine for CpReverse {
    type Case = CpCase;
    fn name(&self) -> &'static str {
        "cp-reverse-quote"
    }
    fn strategy(&self, _t: Tier) -> BoxedStrategy<CpCase> {
        cp_case().boxed()
    }
    fn run(&self, c: &CpCase, st: &mut Stats) -> Result<(), String> {
        let (x, y) = (val(&c.x), val(&c.y));
        let ask = if c.ask_ppm == 0 {
            c.ask_units as u128
        } else {
            exact::to_u128(&(big(y) * big(c.ask_ppm as u128) / big(1_000_000))).max(1)
        };
        let fees = c.fees.to_pool_fee();
        let r = catch_unwind(AssertUnwindSafe(|| {
            pool_manager::helpers::compute_offer_amount(Uint128::new(x), Uint128::new(y), Uint128::new(ask), fees)
        }));
        let q = match r {
            Ok(Ok(q)) => q.offer_amount.u128(),
            _ => {
                st.bump("reverse quote refused");
                return Ok(());
            }
        };
        let offer = match q.checked_add(1) {
            Some(o) => o,
            None => return Ok(()),
        };
        let info = cp_info(x, y, &c.fees);
        let oc = coin(offer, "a");
        let r = catch_unwind(AssertUnwindSafe(|| pool_manager::helpers::compute_swap(&info, &oc, "b")));
        match r {
            Ok(Ok(comp)) => {
                if comp.return_amount.u128() < ask {
                    let short = ask - comp.return_amount.u128();
                    let msg = format!(
                        "[C12] reverse quote for {ask} of reserve {y} (offer reserve {x}, fees {:?}) is {q}, but offering {q}+1 returns only {} ({short} short)",
                        c.fees, comp.return_amount
                    );
                    // known finding: ask/(1-fees) is computed with the 18-digit rounded-down inverse of
                    // (1-fees), losing about ask/10^18 units: only amounts >= 10^17 are affected
                    if kf_open("c12-reverse-quote-inverse-rounding") && ask >= 100_000_000_000_000_000 && short <= 1 + ask.div_ceil(500_000_000_000_000_000) {
                        st.known("c12-reverse-quote-inverse-rounding", || msg);
                        return Ok(());
                    }
                    return Err(msg);
                }
                st.bump("reverse quote checked");
                st.mark();
            }
            _ => {
                // the forward swap itself refuses (overflow for absurd offers): nothing to compare
                st.bump("forward swap refused");
            }
        }
        Ok(())
    }
}

// ------------------------------------------------------------------------------------------------
// stableswap: swaps never lower exact D (C03, numeric volume) — reuses the C19 state generator

pub struct SsSwapValue;

impl Engine for SsSwapValue {
    type Case = c19::Case;
    fn name(&self) -> &'static str {
        "ss-swap-value-numeric"
    }
    fn strategy(&self, _t: Tier) -> BoxedStrategy<c19::Case> {
        c19::case_strat().boxed()
    }
    fn run(&self, c: &c19::Case, st: &mut Stats) -> Result<(), String> {
        // C03 speaks about all amplification factors: some cases far above the 10^6 of C19's range
        let boosted;
        let c = if let Some(k) = c.beyond {
            boosted = c19::Case { amp: c.amp.saturating_mul(10u64.pow(k.clamp(1, 6) as u32)), ..c.clone() };
            st.bump("states with an amplification boosted by 10^k");
            &boosted
        } else {
            c
        };
        let s = match c19::build_state(c) {
            Some(s) => s,
            None => return Ok(()),
        };
        let n = s.amounts.len();
        let oi = c.oi as usize % n;
        let ai = (oi + 1 + c.ai as usize % (n - 1)) % n;
        let offer = exact::to_u128_sat(&(big(s.amounts[oi]) * big(c.offer_ppm as u128) / big(1_000_000) + big(c.jitter as u128))).max(1);
        let oc = coin(offer, format!("d{oi}"));
        let ask = format!("d{ai}");
        let info = s.info.clone();
        let r = catch_unwind(AssertUnwindSafe(|| pool_manager::helpers::compute_swap(&info, &oc, &ask)));
        let comp = match r {
            Ok(Ok(c)) => c,
            _ => {
                st.bump("swap refused");
                return Ok(());
            }
        };
        let leaves = comp.return_amount.u128() + comp.protocol_fee_amount.u128() + comp.burn_fee_amount.u128();
        if leaves > s.amounts[ai] {
            return Err(format!("[C03] stableswap swap takes {leaves} out of a reserve of {}", s.amounts[ai]));
        }
        let mut after = s.amounts.clone();
        after[oi] += offer;
        after[ai] -= leaves;
        let mk = |amts: &[u128]| crate::poolview::PoolView {
            id: "p".into(),
            denoms: (0..n).map(|i| format!("d{i}")).collect(),
            decimals: s.decs.clone(),
            reserves: amts.to_vec(),
            kind: crate::poolview::Kind::Ss { amp: c.amp },
            lp_denom: String::new(),
            supply: 1,
            swaps_enabled: true,
            deposits_enabled: true,
            withdrawals_enabled: true,
            protocol_fee: 0,
            swap_fee: 0,
            burn_fee: 0,
            extra_fees: vec![],
        };
        let x = crate::pool::monitors::SwapExec {
            path: "numeric",
            before: mk(&s.amounts),
            after: mk(&after),
            info_before: s.info.clone(),
            oi,
            ai,
            offer,
            ret: comp.return_amount.u128(),
        };
        crate::pool::monitors::check_swap_value(&x, st, "numeric state")
    }
}

// ------------------------------------------------------------------------------------------------
// stableswap deposits: minted LP never exceeds the growth of exact D (C02, numeric volume)

#[derive(Debug, Clone, Serialize, Deserialize)]
pub struct MintCase {
    pub state: c19::Case,
    /// deposit per asset as ppm of that asset's reserve (0 = asset not deposited)
    pub dep_ppm: Vec<u32>,
    /// LP supply relative to exact D, in ppm (around 1_000_000)
    pub supply_ppm: u32,
}

pub fn mint_case() -> impl Strategy<Value = MintCase> {
    (
        c19::case_strat(),
        prop_oneof![
            // balanced
            3 => (1u32..2_000_000).prop_map(|p| vec![p, p, p, p]),
            // skewed / partial sets
            4 => proptest::collection::vec(prop_oneof![2 => Just(0u32), 5 => 1u32..2_000_000, 1 => 2_000_000u32..10_000_000, 1 => Just(1u32)], 4),
        ],
        prop_oneof![3 => Just(1_000_000u32), 3 => 500_000u32..2_000_000, 1 => 1u32..500_000],
    )
        .prop_map(|(state, dep_ppm, supply_ppm)| MintCase { state, dep_ppm, supply_ppm })
}

pub struct SsMint;

impl Engine for SsMint {
    type Case = MintCase;
    fn name(&self) -> &'static str {
        "ss-mint-numeric"
    }
    fn strategy(&self, _t: Tier) -> BoxedStrategy<MintCase> {
        mint_case().boxed()
    }
    fn run(&self, c: &MintCase, st: &mut Stats) -> Result<(), String> {
        let s = match c19::build_state(&c.state) {
            Some(s) => s,
            None => return Ok(()),
        };
        let n = s.amounts.len();
        let xs0 = exact::normalise(&s.amounts, &s.decs);
        let d0 = exact::d_floor(&xs0, c.state.amp);
        if d0.is_zero() {
            return Ok(());
        }
        let supply = exact::to_u128(&(&d0 * big(c.supply_ppm as u128) / big(1_000_000)).min(big(u128::MAX / 4))).max(1);
        let mut new_assets = s.info.assets.clone();
        let mut any = false;
        let mut partial = false;
        for i in 0..n {
            let dep = exact::to_u128_sat(&(big(s.amounts[i]) * big(c.dep_ppm[i] as u128) / big(1_000_000)));
            let dep = if c.dep_ppm[i] > 0 { dep.max(1) } else { 0 };
            if dep > 0 {
                any = true;
            } else {
                partial = true;
            }
            match s.amounts[i].checked_add(dep) {
                Some(v) if v <= 10u128.pow(33) => new_assets[i].amount = v.into(),
                _ => return Ok(()),
            }
        }
        if !any {
            return Ok(());
        }
        let info = s.info.clone();
        let amp = c.state.amp;
        let old = s.info.assets.clone();
        let na = new_assets.clone();
        let r = catch_unwind(AssertUnwindSafe(|| {
            pool_manager::helpers::compute_lp_mint_amount_for_stableswap_deposit(&amp, &old, &na, Uint128::new(supply), &info)
        }));
        let m = match r {
            Ok(Ok(Some(m))) => m.u128(),
            _ => {
                st.bump("mint refused");
                return Ok(());
            }
        };
        let amts1: Vec<u128> = new_assets.iter().map(|c| c.amount.u128()).collect();
        let xs1 = exact::normalise(&amts1, &s.decs);
        let d1 = exact::d_floor(&xs1, c.state.amp);
        st.bump(if partial { "mint checked: partial asset set" } else { "mint checked: all assets" });
        if m > 0 {
            st.mark();
        }
        // (S+m)(D0-2) <= S(D1+2)
        let lhs = (big(supply) + big(m)) * (if d0 > big(2) { &d0 - big(2) } else { BigUint::zero() });
        let rhs = big(supply) * (&d1 + big(2));
        if lhs > rhs {
            let excess = (&lhs - &rhs) / big(supply) + big(1);
            let msg = format!(
                "[C02] stableswap deposit mints {m} LP on supply {supply}: grows faster than exact D {d0} -> {d1} (excess {excess} units of D); amp {} reserves {:?} -> {:?} decimals {:?}",
                c.state.amp, s.amounts, amts1, s.decs
            );
            let skew = c19::skew_of(&s.amounts, &s.decs).max(c19::skew_of(&amts1, &s.decs));
            let size = c19::size_micro(&s.amounts, &s.decs);
            // the integer D of a state is exact+0..; a mint uses two of them
            match c19::ss_known_key(c.state.amp, skew, &size, &excess, &BigUint::zero()) {
                Some(k) => st.known(k, || msg),
                None => return Err(msg),
            }
        }
        Ok(())
    }
}
