//! C15 — only authorised parties can perform privileged actions. Engine M: complete enumeration of
//! (contract, privileged message variant, sender role, ownership state, funds attached) cells, each in
//! a fresh world, against a role table written from the property.
use cosmwasm_std::{coin, Addr, Coin, Decimal, Uint64};
use cw_ownable::Action;
use mantra_dex_std::epoch_manager as em;
use mantra_dex_std::farm_manager as fm;
use mantra_dex_std::fee_collector as fc;
use mantra_dex_std::pool_manager as pm;
use proptest::prelude::*;
use serde::{Deserialize, Serialize};

use crate::farm::interp::{FMon, FarmSim};
use crate::farm::ops::FCfg;
use crate::framework::*;
use crate::world::{Snapshot, DAY, GENESIS, MONTH, YEAR};

#[derive(Debug, Clone, Serialize, Deserialize, PartialEq, Eq, Hash)]
pub struct Cell {
    /// 0 pool manager, 1 farm manager, 2 epoch manager, 3 fee collector
    pub contract: u8,
    pub variant: u8,
    /// 0 owner-of-record O, 1 proposed owner P, 2 stranger, 3 farm owner, 4 position owner,
    /// 5 pool manager contract, 6 farm manager contract
    pub role: u8,
    /// 0 initial, 1 transfer pending (O proposed P), 2 transferred (P accepted), 3 renounced
    pub state: u8,
    pub funds: bool,
    pub payload: u32,
}

pub const ROLES: [&str; 7] = ["owner O", "proposed owner P", "stranger", "farm owner", "position owner", "pool manager contract", "farm manager contract"];
pub const STATES: [&str; 4] = ["initial", "transfer pending", "transferred to P", "renounced"];

/// number of privileged variants per contract
pub fn n_variants(contract: u8) -> u8 {
    match contract {
        0 => 12, // 5 UpdateConfig shapes + 3 ownership actions + 2 locked deposits topping up a named position
                 // + 2 plain deposits for the position's owner that name the position without an unlocking duration
        1 => 19, // 10 UpdateConfig fields + 3 ownership actions + 2 farm + 4 position
        2 => 4,  // UpdateConfig + 3 ownership actions
        _ => 3,  // 3 ownership actions
    }
}

pub fn all_cells(payload: u32) -> Vec<Cell> {
    let mut v = vec![];
    for contract in 0..4u8 {
        for variant in 0..n_variants(contract) {
            for role in 0..7u8 {
                for state in 0..4u8 {
                    for funds in [false, true] {
                        v.push(Cell { contract, variant, role, state, funds, payload });
                    }
                }
            }
        }
    }
    v
}

pub struct Matrix;

struct Setup {
    sim: FarmSim,
    o: Addr,
    p: Addr,
    farm_id: String,
    pos_id: String,
}

fn setup() -> Setup {
    let cfg = FCfg { fee_variant: 0, fee_amount: 0, max_farms: 2, penalty_bp: 1000, n_lp: 2 };
    let mut sim = FarmSim::new(&cfg, FMon::default());
    let o = sim.w.owner.clone();
    let p = sim.w.users[3].clone();
    let u1 = sim.w.users[1].clone();
    let u2 = sim.w.users[2].clone();
    let lp = sim.lps[0].clone();
    sim.w
        .farm(
            &u1,
            fm::FarmAction::Create { params: fm::FarmParams { lp_denom: lp.clone(), start_epoch: None, preliminary_end_epoch: None, curve: None, farm_asset: coin(14_000, "uusdc"), farm_identifier: Some("farm".into()) } },
            &[coin(14_000, "uusdc")],
        )
        .expect("setup farm");
    sim.w
        .pos(&u2, fm::PositionAction::Create { identifier: Some("pos".into()), unlocking_duration: DAY, receiver: None }, &[coin(1_000_000, &lp)])
        .expect("setup position");
    // the pool manager contract itself needs a few LP tokens and base coins to act as a sender with funds
    Setup { sim, o, p, farm_id: "m-farm".into(), pos_id: "u-pos".into() }
}

fn ownership_msg_pm(a: Action) -> pm::ExecuteMsg {
    pm::ExecuteMsg::UpdateOwnership(a)
}

fn fm_update(field: u8, payload: u32, s: &Setup) -> fm::ExecuteMsg {
    let mut m = fm::ExecuteMsg::UpdateConfig {
        fee_collector_addr: None,
        epoch_manager_addr: None,
        pool_manager_addr: None,
        create_farm_fee: None,
        max_concurrent_farms: None,
        max_farm_epoch_buffer: None,
        min_unlocking_duration: None,
        max_unlocking_duration: None,
        farm_expiration_time: None,
        emergency_unlock_penalty: None,
    };
    if let fm::ExecuteMsg::UpdateConfig {
        fee_collector_addr,
        epoch_manager_addr,
        pool_manager_addr,
        create_farm_fee,
        max_concurrent_farms,
        max_farm_epoch_buffer,
        min_unlocking_duration,
        max_unlocking_duration,
        farm_expiration_time,
        emergency_unlock_penalty,
    } = &mut m
    {
        match field {
            0 => *fee_collector_addr = Some(s.sim.w.users[0].to_string()),
            1 => *epoch_manager_addr = Some(s.sim.w.epoch_manager.to_string()),
            2 => *pool_manager_addr = Some(s.sim.w.pool_manager.to_string()),
            3 => *create_farm_fee = Some(coin((payload % 10_000) as u128, "uom")),
            4 => *max_concurrent_farms = Some(2 + payload % 3),
            5 => *max_farm_epoch_buffer = Some(1 + payload % 30),
            6 => *min_unlocking_duration = Some(DAY + (payload as u64 % DAY)),
            7 => *max_unlocking_duration = Some(YEAR - (payload as u64 % DAY)),
            8 => *farm_expiration_time = Some(MONTH + (payload as u64 % MONTH)),
            _ => *emergency_unlock_penalty = Some(Decimal::from_ratio((payload % 10_001) as u128, 10_000u128)),
        }
    }
    m
}

fn action(k: u8, new_owner: &Addr) -> Action {
    match k {
        0 => Action::TransferOwnership { new_owner: new_owner.to_string(), expiry: None },
        1 => Action::AcceptOwnership,
        _ => Action::RenounceOwnership,
    }
}

impl Matrix {
    pub fn describe(c: &Cell) -> String {
        let contract = ["pool manager", "farm manager", "epoch manager", "fee collector"][c.contract as usize % 4];
        format!(
            "{contract} variant {} from {} in ownership state '{}'{}",
            c.variant,
            ROLES[c.role as usize % 7],
            STATES[c.state as usize % 4],
            if c.funds { " with funds attached" } else { "" }
        )
    }
}

impl Engine for Matrix {
    type Case = Cell;
    fn name(&self) -> &'static str {
        "auth-matrix"
    }
    fn strategy(&self, _t: Tier) -> BoxedStrategy<Cell> {
        (0u8..4, 0u8..19, 0u8..7, 0u8..4, any::<bool>(), any::<u32>())
            .prop_map(|(contract, variant, role, state, funds, payload)| Cell { contract, variant: variant % n_variants(contract), role, state, funds, payload })
            .boxed()
    }
    fn run(&self, c: &Cell, st: &mut Stats) -> Result<(), String> {
        let mut s = setup();
        let w_pm = s.sim.w.pool_manager.clone();
        let w_fm = s.sim.w.farm_manager.clone();
        let w_em = s.sim.w.epoch_manager.clone();
        let w_fc = s.sim.w.fee_collector.clone();
        let target = [w_pm.clone(), w_fm.clone(), w_em.clone(), w_fc.clone()][c.contract as usize % 4].clone();
        let (o, p) = (s.o.clone(), s.p.clone());
        // bring the target contract into the ownership state
        let own = |a: Action, c: u8| -> serde_json::Value {
            match c {
                0 => serde_json::to_value(pm::ExecuteMsg::UpdateOwnership(a)).unwrap(),
                1 => serde_json::to_value(fm::ExecuteMsg::UpdateOwnership(a)).unwrap(),
                2 => serde_json::to_value(em::ExecuteMsg::UpdateOwnership(a)).unwrap(),
                _ => serde_json::to_value(fc::ExecuteMsg::UpdateOwnership(a)).unwrap(),
            }
        };
        let _ = ownership_msg_pm;
        if c.state >= 1 && c.state <= 2 {
            s.sim.w.exec(&o, &target, &own(action(0, &p), c.contract), &[]).map_err(|e| format!("[harness] cannot propose: {e}"))?;
        }
        if c.state == 2 {
            s.sim.w.exec(&p, &target, &own(action(1, &p), c.contract), &[]).map_err(|e| format!("[harness] cannot accept: {e}"))?;
        }
        if c.state == 3 {
            s.sim.w.exec(&o, &target, &own(action(2, &p), c.contract), &[]).map_err(|e| format!("[harness] cannot renounce: {e}"))?;
        }
        let current_owner: Option<Addr> = match c.state {
            0 | 1 => Some(o.clone()),
            2 => Some(p.clone()),
            _ => None,
        };
        let pending: Option<Addr> = if c.state == 1 { Some(p.clone()) } else { None };
        let sender: Addr = match c.role % 7 {
            0 => o.clone(),
            1 => p.clone(),
            2 => s.sim.w.users[0].clone(),
            3 => s.sim.w.users[1].clone(),
            4 => s.sim.w.users[2].clone(),
            5 => w_pm.clone(),
            _ => w_fm.clone(),
        };
        let lp = s.sim.lps[0].clone();
        let is_owner = current_owner.as_ref() == Some(&sender);
        // the message, its required funds (for the payable ones) and who may send it
        #[derive(PartialEq)]
        enum Kind {
            OwnerOnly,
            Transfer,
            Accept,
            Renounce,
            FarmExpand,
            FarmClose,
            PosCreateFor,
            PosExpand,
            PosClose,
            PosWithdraw,
            /// a locked deposit through the pool manager that names an existing position
            PmTopUp,
            /// a deposit with receiver = the position's owner that names the position but sends no
            /// unlocking duration: not a lock, anybody may do it, and the position must not change
            PmPlainNamed,
        }
        let pool0 = s.sim.pool_ids[0].clone();
        let pool_denoms: Vec<String> = s.sim.w.pool(&pool0).map(|i| i.pool_info.assets.iter().map(|c| c.denom.clone()).collect()).unwrap_or_default();
        // interference (odd payloads): before a farm / position cell is probed, a stranger tries to
        // take the identifier over - a farm of the same identifier on another LP token, a position
        // of the same identifier for themselves. Whatever happens to those attempts, the role
        // table below must still describe who may act on the original farm and position.
        if c.contract % 4 == 1 && c.payload % 2 == 1 {
            let stranger = s.sim.w.users[0].clone();
            if (13..=14).contains(&c.variant) && s.sim.lps.len() > 1 {
                let other_lp = s.sim.lps[1].clone();
                let r = s.sim.w.farm(
                    &stranger,
                    fm::FarmAction::Create { params: fm::FarmParams { lp_denom: other_lp, start_epoch: None, preliminary_end_epoch: None, curve: None, farm_asset: coin(14_000, "uusdc"), farm_identifier: Some("farm".into()) } },
                    &[coin(14_000, "uusdc")],
                );
                st.bump(if r.is_ok() { "interference: farm of the same identifier accepted" } else { "interference: farm of the same identifier refused" });
            }
            if (15..=18).contains(&c.variant) {
                let r = s.sim.w.pos(&stranger, fm::PositionAction::Create { identifier: Some("pos".into()), unlocking_duration: DAY, receiver: None }, &[coin(10, &lp)]);
                st.bump(if r.is_ok() { "interference: position of the same identifier accepted" } else { "interference: position of the same identifier refused" });
            }
        }
        let (msg, kind, base_funds): (serde_json::Value, Kind, Vec<Coin>) = match c.contract % 4 {
            0 => match c.variant {
                0 => (serde_json::to_value(pm::ExecuteMsg::UpdateConfig { fee_collector_addr: Some(s.sim.w.users[0].to_string()), farm_manager_addr: None, pool_creation_fee: None, feature_toggle: None }).unwrap(), Kind::OwnerOnly, vec![]),
                1 => (serde_json::to_value(pm::ExecuteMsg::UpdateConfig { fee_collector_addr: None, farm_manager_addr: Some(w_fm.to_string()), pool_creation_fee: None, feature_toggle: None }).unwrap(), Kind::OwnerOnly, vec![]),
                2 => (serde_json::to_value(pm::ExecuteMsg::UpdateConfig { fee_collector_addr: None, farm_manager_addr: None, pool_creation_fee: Some(coin((c.payload % 100_000) as u128, "uusd")), feature_toggle: None }).unwrap(), Kind::OwnerOnly, vec![]),
                3 => (
                    serde_json::to_value(pm::ExecuteMsg::UpdateConfig {
                        fee_collector_addr: None,
                        farm_manager_addr: None,
                        pool_creation_fee: None,
                        feature_toggle: Some(pm::FeatureToggle { pool_identifier: s.sim.pool_ids[0].clone(), withdrawals_enabled: Some(c.payload & 1 == 0), deposits_enabled: Some(c.payload & 2 == 0), swaps_enabled: Some(c.payload & 4 == 0) }),
                    })
                    .unwrap(),
                    Kind::OwnerOnly,
                    vec![],
                ),
                4 => (
                    serde_json::to_value(pm::ExecuteMsg::UpdateConfig {
                        fee_collector_addr: Some(s.sim.w.users[1].to_string()),
                        farm_manager_addr: Some(w_fm.to_string()),
                        pool_creation_fee: Some(coin(7, "uom")),
                        feature_toggle: Some(pm::FeatureToggle { pool_identifier: s.sim.pool_ids[0].clone(), withdrawals_enabled: None, deposits_enabled: None, swaps_enabled: Some(false) }),
                    })
                    .unwrap(),
                    Kind::OwnerOnly,
                    vec![],
                ),
                5 => (own(action(0, &s.sim.w.users[0]), 0), Kind::Transfer, vec![]),
                6 => (own(action(1, &p), 0), Kind::Accept, vec![]),
                7 => (own(action(2, &p), 0), Kind::Renounce, vec![]),
                v @ (10 | 11) => {
                    let one = v == 11 || pool_denoms.len() < 2;
                    let f: Vec<Coin> = if one { vec![coin(2000, &pool_denoms[0])] } else { vec![coin(1000, &pool_denoms[0]), coin(1000, &pool_denoms[1])] };
                    (
                        serde_json::to_value(pm::ExecuteMsg::ProvideLiquidity {
                            liquidity_max_slippage: None,
                            swap_max_slippage: Some(Decimal::percent(50)),
                            receiver: Some(s.sim.w.users[2].to_string()),
                            pool_identifier: pool0.clone(),
                            unlocking_duration: None,
                            lock_position_identifier: Some(s.pos_id.clone()),
                        })
                        .unwrap(),
                        Kind::PmPlainNamed,
                        f,
                    )
                }
                v => {
                    // 8: both assets, 9: one asset (the pool manager swaps half and then calls itself)
                    let one = v == 9 || pool_denoms.len() < 2;
                    let f: Vec<Coin> = if one { vec![coin(2000, &pool_denoms[0])] } else { vec![coin(1000, &pool_denoms[0]), coin(1000, &pool_denoms[1])] };
                    (
                        serde_json::to_value(pm::ExecuteMsg::ProvideLiquidity {
                            liquidity_max_slippage: None,
                            swap_max_slippage: Some(Decimal::percent(50)),
                            receiver: None,
                            pool_identifier: pool0.clone(),
                            unlocking_duration: Some(DAY),
                            lock_position_identifier: Some(s.pos_id.clone()),
                        })
                        .unwrap(),
                        Kind::PmTopUp,
                        f,
                    )
                }
            },
            1 => match c.variant {
                v @ 0..=9 => (serde_json::to_value(fm_update(v, c.payload, &s)).unwrap(), Kind::OwnerOnly, vec![]),
                10 => (own(action(0, &s.sim.w.users[0]), 1), Kind::Transfer, vec![]),
                11 => (own(action(1, &p), 1), Kind::Accept, vec![]),
                12 => (own(action(2, &p), 1), Kind::Renounce, vec![]),
                13 => (
                    serde_json::to_value(fm::ExecuteMsg::ManageFarm {
                        action: fm::FarmAction::Expand { params: fm::FarmParams { lp_denom: lp.clone(), start_epoch: None, preliminary_end_epoch: None, curve: None, farm_asset: coin(2000, "uusdc"), farm_identifier: Some(s.farm_id.clone()) } },
                    })
                    .unwrap(),
                    Kind::FarmExpand,
                    vec![coin(2000, "uusdc")],
                ),
                14 => (serde_json::to_value(fm::ExecuteMsg::ManageFarm { action: fm::FarmAction::Close { farm_identifier: s.farm_id.clone() } }).unwrap(), Kind::FarmClose, vec![]),
                15 => (
                    serde_json::to_value(fm::ExecuteMsg::ManagePosition { action: fm::PositionAction::Create { identifier: None, unlocking_duration: DAY, receiver: Some(s.sim.w.users[2].to_string()) } }).unwrap(),
                    Kind::PosCreateFor,
                    vec![coin(10, &lp)],
                ),
                16 => (serde_json::to_value(fm::ExecuteMsg::ManagePosition { action: fm::PositionAction::Expand { identifier: s.pos_id.clone() } }).unwrap(), Kind::PosExpand, vec![coin(10, &lp)]),
                17 => (serde_json::to_value(fm::ExecuteMsg::ManagePosition { action: fm::PositionAction::Close { identifier: s.pos_id.clone(), lp_asset: None } }).unwrap(), Kind::PosClose, vec![]),
                _ => (serde_json::to_value(fm::ExecuteMsg::ManagePosition { action: fm::PositionAction::Withdraw { identifier: s.pos_id.clone(), emergency_unlock: Some(true) } }).unwrap(), Kind::PosWithdraw, vec![]),
            },
            2 => match c.variant {
                0 => (
                    serde_json::to_value(em::ExecuteMsg::UpdateConfig { epoch_config: Some(em::EpochConfig { duration: Uint64::new(DAY + (c.payload as u64 % DAY)), genesis_epoch: Uint64::new(GENESIS + 1 + (c.payload as u64 % YEAR)) }) }).unwrap(),
                    Kind::OwnerOnly,
                    vec![],
                ),
                1 => (own(action(0, &s.sim.w.users[0]), 2), Kind::Transfer, vec![]),
                2 => (own(action(1, &p), 2), Kind::Accept, vec![]),
                _ => (own(action(2, &p), 2), Kind::Renounce, vec![]),
            },
            _ => match c.variant {
                0 => (own(action(0, &s.sim.w.users[0]), 3), Kind::Transfer, vec![]),
                1 => (own(action(1, &p), 3), Kind::Accept, vec![]),
                _ => (own(action(2, &p), 3), Kind::Renounce, vec![]),
            },
        };
        let nonpayable = base_funds.is_empty();
        // the sender must be able to pay what the message itself requires, else the cell says
        // nothing about authorisation: give contract senders what they need
        for bf in base_funds.iter() {
            if s.sim.w.balance(&sender, &bf.denom) < bf.amount.u128() + 5 {
                let donor = s.sim.w.users[0].clone();
                s.sim.w.bank_send(&donor, &sender, &[coin(bf.amount.u128() + 5, &bf.denom)]).map_err(|e| format!("[harness] cannot fund sender: {e}"))?;
            }
        }
        if c.funds && s.sim.w.balance(&sender, "uom") < 5 {
            let donor = s.sim.w.users[0].clone();
            s.sim.w.bank_send(&donor, &sender, &[coin(5, "uom")]).map_err(|e| format!("[harness] cannot fund sender: {e}"))?;
        }
        let mut funds = base_funds.clone();
        funds.sort_by(|a, b| a.denom.cmp(&b.denom));
        // (for the deposits an extra coin would be a third asset: those cells repeat the plain ones)
        if c.funds && kind != Kind::PmTopUp && kind != Kind::PmPlainNamed {
            funds.push(coin(1, "uom"));
            funds.sort_by(|a, b| a.denom.cmp(&b.denom));
        }
        let farm_owner = s.sim.w.users[1].clone();
        let pos_owner = s.sim.w.users[2].clone();
        let expect: bool = match kind {
            Kind::OwnerOnly | Kind::Transfer | Kind::Renounce => is_owner && !c.funds,
            Kind::Accept => pending.as_ref() == Some(&sender) && !c.funds,
            // payable messages: an extra coin makes them malformed (exactly one coin expected)
            Kind::FarmExpand => sender == farm_owner && !c.funds,
            Kind::FarmClose => (sender == farm_owner || is_owner) && !c.funds,
            Kind::PosCreateFor => (sender == w_pm || sender == pos_owner) && !c.funds,
            Kind::PosExpand => (sender == w_pm || sender == pos_owner) && !c.funds,
            Kind::PosClose | Kind::PosWithdraw => sender == pos_owner && !c.funds,
            // topping up through the delegate is still the position owner's action
            Kind::PmTopUp => sender == pos_owner,
            // an ordinary deposit whose LP goes to the receiver
            Kind::PmPlainNamed => true,
        };
        let _ = nonpayable;
        let what = Self::describe(c);
        let positions_before: Vec<(String, String, bool)> = s.sim.w.all_positions(&pos_owner).into_iter().map(|p| (p.identifier, p.lp_asset.to_string(), p.open)).collect();
        let pre = Snapshot::take(&s.sim.w);
        let r = s.sim.w.exec(&sender, &target, &msg, &funds);
        let post = Snapshot::take(&s.sim.w);
        let ok = r.is_ok();
        if ok != expect {
            return Err(format!(
                "[C15] {what}: accepted={ok}, the role table says {expect} (message {}; error {:?})",
                msg.to_string().chars().take(160).collect::<String>(),
                r.err().map(|e| e.chars().take(120).collect::<String>())
            ));
        }
        if !ok && pre != post {
            return Err(format!("[C15] {what}: rejected but state changed: {}", pre.diff(&post).join("; ")));
        }
        if kind == Kind::PmPlainNamed {
            let positions_after: Vec<(String, String, bool)> = s.sim.w.all_positions(&pos_owner).into_iter().map(|p| (p.identifier, p.lp_asset.to_string(), p.open)).collect();
            if positions_after != positions_before {
                return Err(format!("[C15] {what}: a deposit that is no lock (no unlocking duration) changed the positions of the account it named: {:?} -> {:?}", positions_before, positions_after));
            }
        }
        // ownership moves only by propose + accept, or by renouncing
        let ownership: cw_ownable::Ownership<String> = match c.contract % 4 {
            0 => s.sim.w.query(&target, &pm::QueryMsg::Ownership {}),
            1 => s.sim.w.query(&target, &fm::QueryMsg::Ownership {}),
            2 => s.sim.w.query(&target, &em::QueryMsg::Ownership {}),
            _ => s.sim.w.query(&target, &fc::QueryMsg::Ownership {}),
        }
        .map_err(|e| format!("[C15] {what}: Ownership query failed: {e}"))?;
        let want_owner: Option<String> = match (&kind, ok) {
            (Kind::Accept, true) => Some(sender.to_string()),
            (Kind::Renounce, true) => None,
            _ => current_owner.as_ref().map(|a| a.to_string()),
        };
        if ownership.owner != want_owner {
            return Err(format!("[C15] {what}: owner is now {:?}, expected {:?}", ownership.owner, want_owner));
        }
        st.bump(if ok { "cells accepted" } else { "cells rejected" });
        st.bump(&format!("contract {}", c.contract % 4));
        st.mark();
        Ok(())
    }
}

pub fn check(tier: Tier, seed: u64) -> PropReport {
    let mut rep = PropReport::new(
        "C15",
        tier,
        seed,
        "exploration",
        "complete enumeration of cells (contract in {pool manager, farm manager, epoch manager, fee collector}) x (every privileged message variant: each UpdateConfig field alone and combined, the feature toggle, UpdateOwnership Transfer/Accept/Renounce, farm Expand/Close, position Create-for-receiver/Expand/Close/emergency Withdraw, and locked deposits through the pool manager - with both assets and with one asset - that name an existing position, plus the same two deposits sent for the position's owner WITHOUT an unlocking duration (no lock: accepted from anybody, and the named position must not change); on odd payloads a stranger first tries to take the farm's / position's identifier over with a creation of their own) x (sender role: owner of record, proposed owner, stranger, farm owner, position owner, pool manager contract, farm manager contract) x (ownership state: initial, transfer pending, transferred, renounced) x (funds attached or not), each in a fresh world with a funded pool, a farm and a position; payload values (addresses, fees, durations, toggles) derived from a generated number; oracle: accepted iff the role table written from the property says so (owner-only messages only from the current owner and never with funds; Accept only from the proposed owner; farm Expand only the farm owner, Close the farm owner or the current contract owner; positions only their owner, with the pool manager as the only delegate for creating and topping up - and through that delegate only the position's owner tops up); rejected => complete snapshot unchanged; afterwards the Ownership query shows the owner the table predicts (moves only by propose+accept or renounce). Every cell is non-trivial; distinct by cell",
    );
    rep.assumptions = vec!["contracts run natively inside cw-multi-test; any address, including a contract's, can be used as a message sender".into()];
    let payloads: Vec<u32> = match tier {
        Tier::Quick => (0..4u32).map(|k| (seed as u32 ^ 0x1234_5678).wrapping_add(k.wrapping_mul(0x9E37_79B9))).collect(),
        Tier::Thorough => (0..24u32).map(|k| (seed as u32).wrapping_mul(2654435761).wrapping_add(k.wrapping_mul(0x9E37_79B9))).collect(),
    };
    let t0 = std::time::Instant::now();
    let mut cells = vec![];
    for pl in payloads.iter() {
        cells.extend(all_cells(*pl));
    }
    let n_cells = cells.len();
    let threads = default_threads();
    let chunks: Vec<Vec<Cell>> = cells.chunks(n_cells.div_ceil(threads)).map(|c| c.to_vec()).collect();
    let merged = std::sync::Mutex::new(Stats::default());
    let failure: std::sync::Mutex<Option<(Cell, String)>> = std::sync::Mutex::new(None);
    std::thread::scope(|sc| {
        for ch in chunks.iter() {
            let merged = &merged;
            let failure = &failure;
            sc.spawn(move || {
                let mut st = Stats::default();
                for c in ch.iter() {
                    st.evaluations += 1;
                    match run_guarded(&Matrix, c, &mut st) {
                        Ok(()) => st.commit_case(c),
                        Err(m) => {
                            let mut f = failure.lock().unwrap();
                            if f.is_none() {
                                *f = Some((c.clone(), m));
                            }
                            break;
                        }
                    }
                }
                merged.lock().unwrap().merge(st);
            });
        }
    });
    let stats = merged.into_inner().unwrap();
    let failure = failure.into_inner().unwrap().map(|(c, m)| {
        let v = serde_json::to_value(&c).unwrap();
        let path = write_replay("C15", "auth-matrix", seed, &v, &m);
        Failure { engine: "auth-matrix".into(), message: m, case: v, replay_path: path }
    });
    rep.exhaustive = failure.is_none();
    rep.extra.insert("cells_in_matrix".into(), serde_json::json!(all_cells(0).len()));
    rep.extra.insert("payload_rounds".into(), serde_json::json!(payloads.len()));
    rep.push("auth-matrix", Outcome { stats, failure, wall_s: t0.elapsed().as_secs_f64() });
    rep
}
