//! C01 — pool reserves are always fully backed by the pool manager's real balances.
use crate::framework::*;
use crate::pool::monitors::Mon;
use crate::pool::ops::Weights;
use crate::props::pool_hist::PoolHist;

pub fn engine() -> PoolHist {
    PoolHist {
        name: "pool-history-backing",
        mon: Mon { c01: true, ..Mon::default() },
        weights: Weights { roundtrip: 0, create: 2, provide: 8, single: 6, withdraw: 6, swap: 9, route: 7, misc: 4, bad: 3 },
        simple_routes: false,
        max_ops_quick: 40,
        max_ops_thorough: 80,
        generic_mark: true,
    }
}

pub fn check(tier: Tier, seed: u64) -> PropReport {
    let mut rep = PropReport::new(
        "C01",
        tier,
        seed,
        "exploration",
        "cases = (world configuration: decimals of 6 denoms, token-factory fee variant, creation fee) x 1-4 pools created and funded up front x 4..N generated operations (create, multi-asset / single-asset / locked deposits, withdrawals, direct swaps, routed swaps that may revisit pools, donations of base and LP tokens, feature toggles, config changes, invalid messages), all executed against the real contracts; oracle after EVERY step (accepted or rejected), for every denom: bank(pool manager) == sum of reported reserves + locked minimum liquidity + tokens donated outside pool operations + odd units of successful single-asset deposits; non-trivial = history with >= 1 executed swap or route, >= 1 withdrawal and >= 2 pools sharing a denom; distinct by the whole generated history",
    );
    rep.assumptions = vec![
        "contracts run natively inside cw-multi-test with mantra-common-testing's token-factory mock, as in the repository's own suites".into(),
        "a contract panic is a rejected transaction (cw-multi-test commits storage only on success)".into(),
    ];
    let cases = match tier {
        Tier::Quick => 4000,
        Tier::Thorough => 30_000,
    };
    let e = engine();
    let o = drive(&e, "C01", tier, cases, seed);
    rep.push(e.name, o);
    if tier == Tier::Thorough && fuzz_enabled() {
        // engine Z: coverage-guided campaign over the same case type, judged by the same monitor
        let o = fuzz_stage(&e, "C01", "pool_history", 30_000, seed);
        rep.push("fuzz:pool_history", o);
    }
    rep.floor("histories with a multi-hop route", cases / 10);
    rep.floor("histories with an odd single-asset deposit", cases / 10);
    rep.floor("histories with a full drain", cases / 50);
    rep.floor("histories with pools sharing a denom", cases / 4);
    rep
}
