//! A pool as reported by the `Pools{}` query, plus exact (big-integer) value functions.
use num_bigint::BigUint;
use num_traits::{One, Zero};
use serde::{Deserialize, Serialize};

use crate::exact::{self, big, pow10};
use mantra_dex_std::pool_manager as pm;

#[derive(Debug, Clone, PartialEq, Eq, Serialize, Deserialize)]
pub enum Kind {
    Cp,
    Ss { amp: u64 },
}

#[derive(Debug, Clone, PartialEq, Eq)]
pub struct PoolView {
    pub id: String,
    pub denoms: Vec<String>,
    pub decimals: Vec<u8>,
    pub reserves: Vec<u128>,
    pub kind: Kind,
    pub lp_denom: String,
    pub supply: u128,
    pub swaps_enabled: bool,
    pub deposits_enabled: bool,
    pub withdrawals_enabled: bool,
    /// fee shares as Decimal atomics (10^-18)
    pub protocol_fee: u128,
    pub swap_fee: u128,
    pub burn_fee: u128,
    pub extra_fees: Vec<u128>,
}

impl PoolView {
    pub fn from_response(r: &pm::PoolInfoResponse) -> PoolView {
        let p = &r.pool_info;
        PoolView {
            id: p.pool_identifier.clone(),
            denoms: p.asset_denoms.clone(),
            decimals: p.asset_decimals.clone(),
            // `assets` are stored in asset_denoms order at creation and only updated in place
            reserves: p
                .asset_denoms
                .iter()
                .map(|d| {
                    p.assets
                        .iter()
                        .find(|c| &c.denom == d)
                        .map(|c| c.amount.u128())
                        .unwrap_or(0)
                })
                .collect(),
            kind: match p.pool_type {
                pm::PoolType::ConstantProduct => Kind::Cp,
                pm::PoolType::StableSwap { amp } => Kind::Ss { amp },
            },
            lp_denom: p.lp_denom.clone(),
            supply: r.total_share.amount.u128(),
            swaps_enabled: p.status.swaps_enabled,
            deposits_enabled: p.status.deposits_enabled,
            withdrawals_enabled: p.status.withdrawals_enabled,
            protocol_fee: p.pool_fees.protocol_fee.share.atomics().u128(),
            swap_fee: p.pool_fees.swap_fee.share.atomics().u128(),
            burn_fee: p.pool_fees.burn_fee.share.atomics().u128(),
            extra_fees: p
                .pool_fees
                .extra_fees
                .iter()
                .map(|f| f.share.atomics().u128())
                .collect(),
        }
    }
    pub fn n(&self) -> usize {
        self.denoms.len()
    }
    pub fn idx(&self, denom: &str) -> Option<usize> {
        self.denoms.iter().position(|d| d == denom)
    }
    pub fn funded(&self) -> bool {
        self.supply > 0
    }
    pub fn all_reserves_positive(&self) -> bool {
        self.reserves.iter().all(|r| *r > 0)
    }
    pub fn max_dec(&self) -> u8 {
        *self.decimals.iter().max().unwrap_or(&0)
    }
    pub fn min_dec(&self) -> u8 {
        *self.decimals.iter().min().unwrap_or(&0)
    }
    /// the minimum liquidity locked in the contract at the first deposit
    pub fn min_liquidity(&self) -> u128 {
        match self.kind {
            Kind::Cp => 1000,
            Kind::Ss { .. } => 1000 * 10u128.pow((self.max_dec() - self.min_dec()) as u32),
        }
    }
    pub fn normalised(&self) -> Vec<BigUint> {
        exact::normalise(&self.reserves, &self.decimals)
    }
    /// floor(D* · 10^extra) for a stableswap pool (exact, by bisection)
    pub fn d_scaled(&self, extra: u32) -> BigUint {
        match self.kind {
            Kind::Ss { amp } => exact::d_floor_scaled(&self.normalised(), amp, extra),
            Kind::Cp => BigUint::zero(),
        }
    }
    /// x·y for a constant-product pool
    pub fn product(&self) -> BigUint {
        big(self.reserves[0]) * big(self.reserves[1])
    }
    /// max/min of the normalised reserves (∞ -> u64::MAX when a reserve is zero)
    pub fn skew(&self) -> u64 {
        let xs = self.normalised();
        let mx = xs.iter().max().cloned().unwrap_or_else(BigUint::zero);
        let mn = xs.iter().min().cloned().unwrap_or_else(BigUint::zero);
        if mn.is_zero() {
            return u64::MAX;
        }
        u64::try_from(mx / mn).unwrap_or(u64::MAX)
    }
    /// total pool size in whole tokens (floor)
    pub fn size_tokens(&self) -> BigUint {
        let s: BigUint = self.normalised().iter().sum();
        s / pow10(self.max_dec() as u32)
    }
    pub fn fee_total(&self) -> u128 {
        self.protocol_fee + self.swap_fee + self.burn_fee + self.extra_fees.iter().sum::<u128>()
    }
}

pub const DEC18: u128 = 1_000_000_000_000_000_000;

/// floor(amount · share) with `share` in 10^-18 atomics, exactly
pub fn fee_floor(amount: u128, share_atomics: u128) -> u128 {
    let v = big(amount) * big(share_atomics) / big(DEC18);
    exact::to_u128(&v)
}

pub fn isqrt(n: &BigUint) -> BigUint {
    n.sqrt()
}

pub fn one() -> BigUint {
    BigUint::one()
}
