//! Glue for the coverage-guided engine Z: decode fuzzer bytes into the engines' case types by
//! feeding them to the proptest strategies as the random stream, and run the same interpreters
//! and monitors.
use std::sync::Once;

use proptest::strategy::{Strategy, ValueTree};
use proptest::test_runner::{Config, RngAlgorithm, TestRng, TestRunner};

use crate::farm::interp::FMon;
use crate::farm::ops::{FWeights, FarmCase};
use crate::framework::{load_known_findings, Engine, Stats};
use crate::pool::monitors::Mon;
use crate::pool::ops::{PoolCase, Weights};
use crate::props::farm_hist::FarmHist;
use crate::props::pool_hist::PoolHist;

static INIT: Once = Once::new();

pub fn init() {
    INIT.call_once(|| {
        // contract panics are rejected transactions; only the target's own panic is a finding
        let default = std::panic::take_hook();
        std::panic::set_hook(Box::new(move |info| {
            let s = info.to_string();
            if s.contains("VIOLATION-IN-TARGET") {
                default(info);
            }
        }));
        load_known_findings();
    });
}

fn runner(data: &[u8]) -> TestRunner {
    let rng = TestRng::from_seed(RngAlgorithm::PassThrough, data);
    TestRunner::new_with_rng(Config { failure_persistence: None, ..Config::default() }, rng)
}

pub fn pool_engine() -> PoolHist {
    PoolHist {
        name: "fuzz-pool-backing",
        mon: Mon { c01: true, c20: true, ..Mon::default() },
        weights: Weights { roundtrip: 0, create: 2, provide: 8, single: 6, withdraw: 6, swap: 9, route: 7, misc: 4, bad: 3 },
        simple_routes: false,
        max_ops_quick: 60,
        max_ops_thorough: 60,
        generic_mark: true,
    }
}

pub fn farm_engine() -> FarmHist {
    FarmHist {
        name: "fuzz-farm-custody-rewards",
        mon: FMon { c05: true, c06: true, c20: true, ..FMon::default() },
        weights: FWeights::default(),
        max_ops_quick: 60,
        max_ops_thorough: 60,
        liquidate: true,
    }
}

pub fn decode_pool_case(data: &[u8]) -> Option<PoolCase> {
    if data.len() < 16 {
        return None;
    }
    let mut r = runner(data);
    pool_engine().strategy(crate::framework::Tier::Quick).new_tree(&mut r).ok().map(|t| t.current())
}

pub fn decode_farm_case(data: &[u8]) -> Option<FarmCase> {
    if data.len() < 16 {
        return None;
    }
    let mut r = runner(data);
    farm_engine().strategy(crate::framework::Tier::Quick).new_tree(&mut r).ok().map(|t| t.current())
}

pub fn run_pool_backing(case: &PoolCase) -> Result<(), String> {
    let mut st = Stats::default();
    st.frozen = true;
    pool_engine().run(case, &mut st)
}

pub fn run_farm_custody_rewards(case: &FarmCase) -> Result<(), String> {
    let mut st = Stats::default();
    st.frozen = true;
    farm_engine().run(case, &mut st)
}
