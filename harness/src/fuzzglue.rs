//! Glue for the coverage-guided engine Z: decode fuzzer bytes into the engines' case types by
//! feeding them to the proptest strategies as the random stream, and run the same interpreters
//! and monitors.
use std::sync::Once;

use proptest::strategy::{Strategy, ValueTree};
use proptest::test_runner::{Config, TestRunner};

use crate::farm::interp::FMon;
use crate::farm::ops::{FWeights, FarmCase};
use crate::framework::{load_known_findings, Engine, Stats};
use crate::pool::monitors::Mon;
use crate::pool::ops::{PoolCase, Weights};
use crate::props::farm_hist::FarmHist;
use crate::props::pool_hist::PoolHist;

static INIT: Once = Once::new();

pub fn init() {
    INIT.call_once(|| {
        // contract panics are rejected transactions; only the target's own panic is a finding
        let default = std::panic::take_hook();
        std::panic::set_hook(Box::new(move |info| {
            let s = info.to_string();
            if s.contains("VIOLATION-IN-TARGET") {
                default(info);
            }
        }));
        load_known_findings();
    });
}

pub fn pool_engine() -> PoolHist {
    PoolHist {
        name: "fuzz-pool-backing",
        mon: Mon { c01: true, c20: true, ..Mon::default() },
        weights: Weights { roundtrip: 0, create: 2, provide: 8, single: 6, withdraw: 6, swap: 9, route: 7, misc: 4, bad: 3 },
        simple_routes: false,
        max_ops_quick: 60,
        max_ops_thorough: 60,
        generic_mark: true,
    }
}

pub fn farm_engine() -> FarmHist {
    FarmHist {
        name: "fuzz-farm-custody-rewards",
        mon: FMon { c05: true, c06: true, c20: true, ..FMon::default() },
        weights: FWeights::default(),
        max_ops_quick: 60,
        max_ops_thorough: 60,
        liquidate: true,
    }
}

/// The fuzzer mutates the JSON text of a case (the same serialisation the replay files use); a
/// seed corpus of generated cases and a dictionary of the field names keep most mutants parseable.
/// (proptest's pass-through RNG was tried first: it halves the remaining bytes at every fork and
/// yields zeros once exhausted, which rand's uniform sampler rejects forever.)
pub fn decode_pool_case(data: &[u8]) -> Option<PoolCase> {
    let c: PoolCase = serde_json::from_slice(data).ok()?;
    if c.ops.len() > 80 || c.creates.len() > 5 {
        return None;
    }
    Some(c)
}

pub fn decode_farm_case(data: &[u8]) -> Option<FarmCase> {
    let c: FarmCase = serde_json::from_slice(data).ok()?;
    if c.ops.len() > 80 {
        return None;
    }
    Some(c)
}

/// write `n` generated cases as a seed corpus
pub fn dump_corpus(which: &str, n: usize, dir: &str, seed: u64) -> std::io::Result<()> {
    use proptest::test_runner::RngSeed;
    std::fs::create_dir_all(dir)?;
    let mut r = TestRunner::new(Config { failure_persistence: None, rng_seed: RngSeed::Fixed(seed), ..Config::default() });
    for i in 0..n {
        let text = if which == "pool" {
            let t = pool_engine().strategy(crate::framework::Tier::Quick).new_tree(&mut r).map_err(|e| std::io::Error::other(e.to_string()))?;
            serde_json::to_string(&t.current()).unwrap()
        } else {
            let t = farm_engine().strategy(crate::framework::Tier::Quick).new_tree(&mut r).map_err(|e| std::io::Error::other(e.to_string()))?;
            serde_json::to_string(&t.current()).unwrap()
        };
        std::fs::write(format!("{dir}/seed-{i:04}.json"), text)?;
    }
    Ok(())
}

pub fn run_pool_backing(case: &PoolCase) -> Result<(), String> {
    let mut st = Stats::default();
    st.frozen = true;
    pool_engine().run(case, &mut st)
}

pub fn run_farm_custody_rewards(case: &FarmCase) -> Result<(), String> {
    let mut st = Stats::default();
    st.frozen = true;
    farm_engine().run(case, &mut st)
}
