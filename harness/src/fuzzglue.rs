//! Glue for the coverage-guided engine Z: the fuzzer's input is the JSON text of an engine's case;
//! a structure-aware custom mutator keeps every input a valid case (operations inserted, replaced
//! by freshly generated ones, deleted, duplicated, reordered, spliced; numeric leaves nudged), and
//! the same interpreters and monitors as engines P / F are the oracle.
use std::sync::Once;

use proptest::strategy::{Strategy, ValueTree};
use proptest::test_runner::{Config, TestRunner};

use crate::farm::interp::FMon;
use crate::farm::ops::{FWeights, FarmCase};
use crate::framework::{load_known_findings, Engine, Stats};
use crate::pool::monitors::Mon;
use crate::pool::ops::{PoolCase, Weights};
use crate::props::farm_hist::FarmHist;
use crate::props::pool_hist::PoolHist;

static INIT: Once = Once::new();

pub fn init() {
    INIT.call_once(|| {
        // contract panics are rejected transactions; only the target's own panic is a finding
        let default = std::panic::take_hook();
        std::panic::set_hook(Box::new(move |info| {
            let s = info.to_string();
            if s.contains("VIOLATION-IN-TARGET") {
                default(info);
            }
        }));
        load_known_findings();
    });
}

pub fn pool_engine() -> PoolHist {
    PoolHist {
        name: "fuzz-pool-history",
        mon: Mon { c01: true, c02: true, c03: true, c04: true, c12: true, c16: true, c20: true, c19: true },
        weights: Weights { roundtrip: 0, create: 2, provide: 8, single: 6, withdraw: 6, swap: 9, route: 7, misc: 4, bad: 3 },
        simple_routes: false,
        max_ops_quick: 60,
        max_ops_thorough: 60,
        generic_mark: true,
    }
}

pub fn farm_engine() -> FarmHist {
    FarmHist {
        name: "fuzz-farm-history",
        mon: crate::props::farm_hist::all_mon(),
        weights: FWeights::default(),
        max_ops_quick: 60,
        max_ops_thorough: 60,
        liquidate: true,
    }
}

/// The fuzzer mutates the JSON text of a case (the same serialisation the replay files use); a
/// seed corpus of generated cases and a dictionary of the field names keep most mutants parseable.
/// (proptest's pass-through RNG was tried first: it halves the remaining bytes at every fork and
/// yields zeros once exhausted, which rand's uniform sampler rejects forever.)
pub fn decode_pool_case(data: &[u8]) -> Option<PoolCase> {
    let c: PoolCase = serde_json::from_slice(data).ok()?;
    if c.ops.len() > 80 || c.creates.len() > 5 {
        return None;
    }
    Some(c)
}

pub fn decode_farm_case(data: &[u8]) -> Option<FarmCase> {
    let c: FarmCase = serde_json::from_slice(data).ok()?;
    if c.ops.len() > 80 {
        return None;
    }
    Some(c)
}

/// write `n` generated cases as a seed corpus
pub fn dump_corpus(which: &str, n: usize, dir: &str, seed: u64) -> std::io::Result<()> {
    use proptest::test_runner::RngSeed;
    std::fs::create_dir_all(dir)?;
    let mut r = TestRunner::new(Config { failure_persistence: None, rng_seed: RngSeed::Fixed(seed), ..Config::default() });
    for i in 0..n {
        let text = if which == "pool" {
            let t = pool_engine().strategy(crate::framework::Tier::Quick).new_tree(&mut r).map_err(|e| std::io::Error::other(e.to_string()))?;
            serde_json::to_string(&t.current()).unwrap()
        } else {
            let t = farm_engine().strategy(crate::framework::Tier::Quick).new_tree(&mut r).map_err(|e| std::io::Error::other(e.to_string()))?;
            serde_json::to_string(&t.current()).unwrap()
        };
        std::fs::write(format!("{dir}/seed-{i:04}.json"), text)?;
    }
    Ok(())
}

/// a panic of the interpreter itself (not of a contract: those are caught where the message is
/// executed) means the input is outside what the interpreter was written for; it is skipped
pub fn run_pool_history(case: &PoolCase) -> Result<(), String> {
    let mut st = Stats::default();
    st.frozen = true;
    std::panic::catch_unwind(std::panic::AssertUnwindSafe(|| pool_engine().run(case, &mut st))).unwrap_or(Ok(()))
}

pub fn run_farm_history(case: &FarmCase) -> Result<(), String> {
    let mut st = Stats::default();
    st.frozen = true;
    std::panic::catch_unwind(std::panic::AssertUnwindSafe(|| farm_engine().run(case, &mut st))).unwrap_or(Ok(()))
}


/// tiny deterministic generator for the mutator's own choices, seeded by libFuzzer per call
struct Mix(u64);
impl Mix {
    fn next(&mut self) -> u64 {
        self.0 = self.0.wrapping_add(0x9E37_79B9_7F4A_7C15);
        let mut z = self.0;
        z = (z ^ (z >> 30)).wrapping_mul(0xBF58_476D_1CE4_E5B9);
        z = (z ^ (z >> 27)).wrapping_mul(0x94D0_49BB_1331_11EB);
        z ^ (z >> 31)
    }
    fn below(&mut self, n: usize) -> usize {
        if n == 0 {
            0
        } else {
            (self.next() % n as u64) as usize
        }
    }
}

fn fresh<E: Engine>(e: &E, seed: u64) -> serde_json::Value {
    use proptest::test_runner::RngSeed;
    let mut r = TestRunner::new(Config { failure_persistence: None, rng_seed: RngSeed::Fixed(seed), ..Config::default() });
    match e.strategy(crate::framework::Tier::Quick).new_tree(&mut r) {
        Ok(t) => serde_json::to_value(t.current()).unwrap_or(serde_json::Value::Null),
        Err(_) => serde_json::Value::Null,
    }
}

/// all numeric leaves of a JSON value, as paths
fn number_paths(v: &serde_json::Value, cur: &mut Vec<String>, out: &mut Vec<Vec<String>>) {
    match v {
        serde_json::Value::Number(_) => out.push(cur.clone()),
        serde_json::Value::Array(a) => {
            for (i, x) in a.iter().enumerate() {
                cur.push(i.to_string());
                number_paths(x, cur, out);
                cur.pop();
            }
        }
        serde_json::Value::Object(o) => {
            for (k, x) in o {
                cur.push(k.clone());
                number_paths(x, cur, out);
                cur.pop();
            }
        }
        _ => {}
    }
}

/// a leaf's field path without the positions inside sequences, except the innermost one (which
/// tells tuple components apart)
fn signature(p: &[String]) -> String {
    let last = p.len().saturating_sub(1);
    p.iter().enumerate().filter(|(i, x)| *i == last || x.parse::<usize>().is_err()).map(|(_, x)| x.as_str()).collect::<Vec<_>>().join("/")
}

fn at_mut<'a>(v: &'a mut serde_json::Value, path: &[String]) -> Option<&'a mut serde_json::Value> {
    let mut c = v;
    for p in path {
        c = match c {
            serde_json::Value::Array(a) => a.get_mut(p.parse::<usize>().ok()?)?,
            serde_json::Value::Object(o) => o.get_mut(p)?,
            _ => return None,
        };
    }
    Some(c)
}

/// One structure-aware mutation step on the JSON text of a case of engine `e`.
pub fn mutate_case<E: Engine>(e: &E, data: &mut [u8], size: usize, max_size: usize, seed: u32) -> usize {
    let mut m = Mix(seed as u64 ^ 0xD1B5_4A32_D192_ED03);
    let parsed: Option<serde_json::Value> = serde_json::from_slice::<E::Case>(&data[..size.min(data.len())]).ok().and_then(|c| serde_json::to_value(c).ok());
    let mut v = match parsed {
        Some(v) => v,
        None => fresh(e, seed as u64),
    };
    let rounds = 1 + m.below(3);
    for _ in 0..rounds {
        let mut t = v.clone();
        let n = t.get("ops").and_then(|o| o.as_array()).map(|a| a.len()).unwrap_or(0);
        let choice = m.below(10);
        match choice {
            0 | 1 => {
                // replace / insert an operation generated by the engine's own strategy
                let f = fresh(e, m.next());
                let fo = f.get("ops").and_then(|o| o.as_array()).cloned().unwrap_or_default();
                if !fo.is_empty() {
                    let op = fo[m.below(fo.len())].clone();
                    if let Some(a) = t.get_mut("ops").and_then(|o| o.as_array_mut()) {
                        if choice == 0 && n > 0 {
                            let i = m.below(n);
                            a[i] = op;
                        } else if n < 80 {
                            let i = m.below(n + 1);
                            a.insert(i, op);
                        }
                    }
                }
            }
            2 if n > 1 => {
                let i = m.below(n);
                t["ops"].as_array_mut().unwrap().remove(i);
            }
            3 if n > 0 && n < 80 => {
                let i = m.below(n);
                let j = m.below(n + 1);
                let op = t["ops"][i].clone();
                t["ops"].as_array_mut().unwrap().insert(j, op);
            }
            4 if n > 1 => {
                let i = m.below(n);
                let j = m.below(n);
                t["ops"].as_array_mut().unwrap().swap(i, j);
            }
            5 => {
                // splice: keep a prefix, continue with the tail of a fresh history
                let f = fresh(e, m.next());
                let fo = f.get("ops").and_then(|o| o.as_array()).cloned().unwrap_or_default();
                if let Some(a) = t.get_mut("ops").and_then(|o| o.as_array_mut()) {
                    let keep = m.below(n + 1);
                    a.truncate(keep);
                    let from = m.below(fo.len() + 1);
                    a.extend(fo.into_iter().skip(from).take(80usize.saturating_sub(keep)));
                }
            }
            6 => {
                // the configuration (and the pools created up front) of a fresh case, same operations
                let f = fresh(e, m.next());
                if let (Some(o), Some(fo)) = (t.as_object_mut(), f.as_object()) {
                    for (k, val) in fo {
                        if k != "ops" && m.below(2) == 0 {
                            o.insert(k.clone(), val.clone());
                        }
                    }
                }
            }
            _ => {
                // give a numeric leaf the value the same field has in a freshly generated case, so
                // that every number stays inside the domain the strategies produce (arithmetic
                // nudges left it: 10^decimals overflowed in the interpreter, not in the contracts)
                let f = fresh(e, m.next());
                let mut fp = vec![];
                number_paths(&f, &mut vec![], &mut fp);
                let mut paths = vec![];
                number_paths(&t, &mut vec![], &mut paths);
                if !paths.is_empty() && !fp.is_empty() {
                    let p = paths[m.below(paths.len())].clone();
                    let sig = signature(&p);
                    let cands: Vec<&Vec<String>> = fp.iter().filter(|q| signature(q) == sig).collect();
                    if !cands.is_empty() {
                        let q = cands[m.below(cands.len())].clone();
                        let mut fm = f.clone();
                        if let (Some(val), Some(x)) = (at_mut(&mut fm, &q).map(|v| v.clone()), at_mut(&mut t, &p)) {
                            *x = val;
                        }
                    }
                }
            }
        }
        // keep the step only if the result is still a case
        if serde_json::from_value::<E::Case>(t.clone()).is_ok() {
            v = t;
        }
    }
    let mut text = serde_json::to_vec(&v).unwrap_or_default();
    while text.len() > max_size.min(data.len()) {
        let Some(a) = v.get_mut("ops").and_then(|o| o.as_array_mut()) else { break };
        if a.pop().is_none() {
            break;
        }
        text = serde_json::to_vec(&v).unwrap_or_default();
    }
    if text.len() > max_size.min(data.len()) {
        return size;
    }
    data[..text.len()].copy_from_slice(&text);
    text.len()
}

/// Cross-over: configuration and a prefix of the first history, a suffix of the second.
pub fn crossover_case<E: Engine>(_e: &E, d1: &[u8], d2: &[u8], out: &mut [u8], seed: u32) -> usize {
    let mut m = Mix(seed as u64 ^ 0xA076_1D64_78BD_642F);
    let a = serde_json::from_slice::<E::Case>(d1).ok().and_then(|c| serde_json::to_value(c).ok());
    let b = serde_json::from_slice::<E::Case>(d2).ok().and_then(|c| serde_json::to_value(c).ok());
    let (Some(mut a), Some(b)) = (a, b) else { return 0 };
    let bo = b.get("ops").and_then(|o| o.as_array()).cloned().unwrap_or_default();
    if let Some(ao) = a.get_mut("ops").and_then(|o| o.as_array_mut()) {
        let keep = m.below(ao.len() + 1);
        ao.truncate(keep);
        let from = m.below(bo.len() + 1);
        ao.extend(bo.into_iter().skip(from).take(80usize.saturating_sub(keep)));
    }
    if serde_json::from_value::<E::Case>(a.clone()).is_err() {
        return 0;
    }
    let text = serde_json::to_vec(&a).unwrap_or_default();
    if text.len() > out.len() {
        return 0;
    }
    out[..text.len()].copy_from_slice(&text);
    text.len()
}
