use dexh::pool::interp::*;
use dexh::pool::ops::*;
fn main(){
    std::panic::set_hook(Box::new(|_| {}));
    let path = std::env::args().nth(1).unwrap();
    let v: serde_json::Value = serde_json::from_str(&std::fs::read_to_string(path).unwrap()).unwrap();
    let case: PoolCase = serde_json::from_value(v["case"].clone()).unwrap();
    let mut sim = Sim::new(&case.cfg);
    let mut steps = vec![];
    for (cs, first) in case.creates.iter() {
        let s = sim.step(&POp::Create(cs.clone()));
        let id = s.post.pools.keys().find(|k| !s.pre.pools.contains_key(*k)).cloned();
        steps.push(s);
        if let Some(id) = id { steps.push(sim.step_targeted(first, Some(&id))); }
    }
    for op in case.ops.iter() { steps.push(sim.step(op)); }
    for s in steps.iter() {
        println!("{}", s.describe());
        for ev in s.wasm_events() { println!("    {:?}", ev.iter().filter(|a| a.0 != "_contract_address").collect::<Vec<_>>()); }
        for (id,p) in s.post.pools.iter() { println!("    pool {id}: {:?} dec {:?} supply {} {:?}", p.reserves, p.decimals, p.supply, p.kind); }
    }
}
