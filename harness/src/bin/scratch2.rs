use cosmwasm_std::{coin, Uint128};
use mantra_dex_std::pool_manager::{PoolInfo, PoolStatus, PoolType};
use dexh::exact;
fn main(){
    let amp=39u64;
    let decs=vec![0u8,6,6];
    let mk=|a:[u128;3]| PoolInfo{pool_identifier:"p".into(),asset_denoms:vec!["d0".into(),"d1".into(),"d2".into()],lp_denom:"factory/x/p.LP".into(),asset_decimals:decs.clone(),assets:vec![coin(a[0],"d0"),coin(a[1],"d1"),coin(a[2],"d2")],pool_type:PoolType::StableSwap{amp},pool_fees:dexh::pool::ops::FeeSpec{protocol:0,swap:0,burn:0,extra:vec![]}.to_pool_fee(),status:PoolStatus::default()};
    for a in [[3u128,750000000,750000000],[3,1681334250,1712289000]] {
        let info=mk(a);
        let d=pool_manager::helpers::compute_d_with_pool_info(&amp,&info.assets,&info);
        let xs=exact::normalise(&a,&decs);
        println!("{:?}: contract D {:?} exact {}", a, d, exact::d_floor(&xs,amp));
    }
    let i0=mk([3,750000000,750000000]); let i1=mk([3,1681334250,1712289000]);
    let m=pool_manager::helpers::compute_lp_mint_amount_for_stableswap_deposit(&amp,&i0.assets,&i1.assets,Uint128::new(1166104684),&i0);
    println!("mint {:?}", m);
}
