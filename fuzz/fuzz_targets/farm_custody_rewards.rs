#![no_main]
//! Engine Z (amplifier for C05 / C06): bytes -> farm history through the farm-history strategy;
//! oracles = custody inequality after every step and the emission bound on every claim.
use libfuzzer_sys::fuzz_target;

fuzz_target!(|data: &[u8]| {
    dexh::fuzzglue::init();
    if let Some(case) = dexh::fuzzglue::decode_farm_case(data) {
        if let Err(m) = dexh::fuzzglue::run_farm_custody_rewards(&case) {
            panic!("VIOLATION-IN-TARGET: {m}");
        }
    }
});
