#![no_main]
//! Engine Z: the input is the JSON text of a generated history (the replay-file serialisation); a
//! structure-aware mutator (dexh::fuzzglue::mutate_case) keeps inputs valid; the oracle is the
//! harness's interpreter with its monitors, inside the target.
use libfuzzer_sys::{fuzz_crossover, fuzz_mutator, fuzz_target};

fuzz_target!(|data: &[u8]| {
    dexh::fuzzglue::init();
    if let Some(case) = dexh::fuzzglue::decode_pool_case(data) {
        if let Err(m) = dexh::fuzzglue::run_pool_history(&case) {
            panic!("VIOLATION-IN-TARGET: {m}");
        }
    }
});

fuzz_mutator!(|data: &mut [u8], size: usize, max_size: usize, seed: u32| {
    dexh::fuzzglue::init();
    dexh::fuzzglue::mutate_case(&dexh::fuzzglue::pool_engine(), data, size, max_size, seed)
});

fuzz_crossover!(|data1: &[u8], data2: &[u8], out: &mut [u8], seed: u32| {
    dexh::fuzzglue::init();
    dexh::fuzzglue::crossover_case(&dexh::fuzzglue::pool_engine(), data1, data2, out, seed)
});
