#![no_main]
//! Engine Z (amplifier for C01): the fuzzer's bytes are the random stream of the same proptest
//! strategy the pool-history engine uses (proptest's pass-through RNG), so coverage-guided
//! mutation of the bytes is mutation of the generated history. The oracle is the C01 monitor
//! (plus "rejected messages leave no trace"), inside the target.
use libfuzzer_sys::fuzz_target;

fuzz_target!(|data: &[u8]| {
    dexh::fuzzglue::init();
    if let Some(case) = dexh::fuzzglue::decode_pool_case(data) {
        if let Err(m) = dexh::fuzzglue::run_pool_backing(&case) {
            panic!("VIOLATION-IN-TARGET: {m}");
        }
    }
});
