#!/bin/bash
# fuzz/run.sh <target> <runs> <seed> <out-dir>
# Coverage-guided campaign (libFuzzer via cargo-fuzz, no sanitizer: the code under test is safe Rust
# and the oracle is inside the target; inputs are JSON cases, mutated by the structure-aware mutator
# in harness/src/fuzzglue.rs). Builds the target against /repo's current tree, seeds the
# corpus with generated cases, runs a fixed number of executions, copies crash inputs to <out-dir>.
# Prints "FUZZ execs=<n> crashes=<n>"; exit 0 unless the infrastructure failed (exit 2).
set -u
T="$1"; RUNS="$2"; SEED="$3"; OUT="$4"
HERE="$(cd "$(dirname "${BASH_SOURCE[0]}")" && pwd)"
ROOT="$(dirname "$HERE")"
export CARGO_NET_OFFLINE=true VERIF_DIR="$ROOT"
cd "$HERE" || exit 2
WORK="$OUT.work"
rm -rf "$WORK"; mkdir -p "$WORK/corpus" "$WORK/artifacts" "$OUT"
cargo +nightly fuzz build --fuzz-dir . -s none "$T" >"$WORK/build.log" 2>&1 || { tail -5 "$WORK/build.log" >&2; echo "FUZZ build failed" ; exit 2; }
kind=pool; [ "$T" = "farm_history" ] && kind=farm
"$ROOT/harness/target/release/dexcheck" dump-corpus $kind 300 "$WORK/corpus" "$SEED" || exit 2
BIN="$HERE/target/x86_64-unknown-linux-gnu/release/$T"
JOBS=${VERIF_FUZZ_JOBS:-14}
( cd "$WORK" && "$BIN" corpus -artifact_prefix="$WORK/artifacts/" -runs="$RUNS" -seed="$SEED" -max_len=65536 -len_control=0 -fork="$JOBS" -ignore_crashes=1 -print_final_stats=1 >"$WORK/run.log" 2>&1 )
execs=$(grep -o "stat::number_of_executed_units: *[0-9]*" "$WORK/run.log" | grep -o "[0-9]*$" | paste -sd+ | bc 2>/dev/null)
[ -z "$execs" ] && execs=$(grep -oE "#[0-9]+" "$WORK/run.log" | tr -d '#' | sort -n | tail -1)
n=0
for f in "$WORK"/artifacts/crash-* ; do [ -f "$f" ] || continue; cp "$f" "$OUT/"; n=$((n+1)); done
echo "FUZZ execs=${execs:-0} crashes=$n corpus=$(ls "$WORK/corpus" | wc -l)"
exit 0
