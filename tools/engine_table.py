#!/usr/bin/env python3
# tools/engine_table.py — prints the per-engine figures of the evidence files as a markdown table
# (used for DESIGN.md 7.2; run after a quick-tier pass over all properties).
import json, glob, os
rows = []
for f in sorted(glob.glob(os.path.join(os.path.dirname(__file__), '..', 'evidence', 'C??.json'))):
    e = json.load(open(f))
    cov = e['coverage']
    for name, v in cov.get('engines', {}).items():
        rows.append((e['property_id'], e['tier'], name, v['evaluations'], v['distinct_nontrivial'], v['wall_s']))
    rows.append((e['property_id'], e['tier'], '(corpus replay)', cov.get('corpus_cases_replayed', 0), '', ''))
print('| property | tier | engine | cases | non-trivial (distinct) | wall s |')
print('|---|---|---|---|---|---|')
for r in rows:
    print('| %s | %s | `%s` | %s | %s | %s |' % r)
