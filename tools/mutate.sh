#!/bin/bash
# tools/mutate.sh <label> <file-relative-to-/repo> <python-replace-old> <python-replace-new> <check>...
# Applies a one-off source mutation to /repo's working tree, runs the given checks (quick tier),
# prints one line per check, and ALWAYS restores the tree. Development aid for sensitivity testing.
label="$1"; file="$2"; old="$3"; new="$4"; shift 4
cd /repo || exit 2
if [ -n "$(git status --porcelain)" ]; then echo "repo dirty, refusing"; exit 2; fi
python3 - "$file" "$old" "$new" <<'PY' || { git checkout -- .; exit 2; }
import sys
p,old,new=sys.argv[1:4]
s=open(p).read()
if old not in s:
    print("MUTATION TEXT NOT FOUND"); sys.exit(1)
open(p,'w').write(s.replace(old,new,1))
PY
for c in "$@"; do
  out=$(cd /verif && ./check $c quick 2>&1)
  code=$?
  v=$(echo "$out" | grep -c '^VIOLATION')
  first=$(echo "$out" | grep -m1 'message=' | cut -c1-220)
  echo "[$label] $c exit=$code violations=$v $first"
done
git checkout -- .
