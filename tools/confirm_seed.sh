#!/bin/bash
# tools/confirm_seed.sh <seed-dir-with-patch.diff-and-demo.diff> — confirms, in a scratch worktree outside
# /repo and /verif, that the change compiles, passes the existing suite, and that the demonstration
# fails with it and passes without it. Prints one summary line.
d="$1"
W=/tmp/seedverify
cd /repo || exit 2
if [ ! -d "$W" ]; then git worktree add -q --detach "$W" HEAD || exit 2; fi
cd "$W" && git checkout -q -- . && git clean -fdq -e target
export CARGO_TARGET_DIR=$W/target CARGO_NET_OFFLINE=true
count() { grep -E "^test result" | awk '{p+=$4; f+=$6} END {print p" "f}'; }
git apply "$d/patch.diff" || { echo "$d: patch does not apply"; exit 1; }
r1=$(cargo test --workspace --no-fail-fast --offline 2>&1 | count)
git apply "$d/demo.diff" || { echo "$d: demo does not apply"; git checkout -q -- .; git clean -fdq -e target; exit 1; }
r2=$(cargo test --workspace --no-fail-fast --offline 2>&1 | count)
git apply -R "$d/patch.diff"
r3=$(cargo test --workspace --no-fail-fast --offline 2>&1 | count)
git checkout -q -- . && git clean -fdq -e target
echo "$d: suite-with-patch(pass fail)=[$r1] patch+demo=[$r2] demo-only=[$r3]"
