#!/bin/bash
# tools/try_seed.sh <patch.diff> <check>... — apply a seeded change to /repo, run checks (quick), restore.
p="$1"; shift
cd /repo || exit 2
if [ -n "$(git status --porcelain)" ]; then echo "repo dirty, refusing"; exit 2; fi
git apply "$p" || { echo "cannot apply $p"; git checkout -- .; exit 2; }
for k in "$@"; do
  out=$(cd /verif && ./check $k quick 2>&1)
  code=$?
  first=$(echo "$out" | grep -m1 -E 'message=|corpus case' | cut -c1-300)
  echo "[$(basename $(dirname $(dirname $p)))] $k exit=$code $first"
done
git checkout -- .
