#!/bin/bash
# tools/detect_matrix.sh [seed-dir ...] — for every stored seeded change (default: all of seeded/*), apply it in
# the mirror (scratch worktree + copy of the harness, /repo untouched), run the quick tier of the property it
# targets with several PRNG seeds, and print one line per (change, seed): detected or not. Also keeps the
# shrunk replay of the first detection under /root/scratch/harvest/. Development aid (slow: ~3 min per change).
M=/root/scratch/mirror
SEEDS=${SEEDS:-"101 102 103"}
mkdir -p /root/scratch/harvest
dirs=("$@"); [ ${#dirs[@]} -eq 0 ] && dirs=(/verif/seeded/*)
mkdir -p $M
[ -d $M/repo ] || git -C /repo worktree add -q --detach $M/repo HEAD || exit 2
for d in "${dirs[@]}"; do
  sid=$(basename $d)
  prop=$(python3 -c "import json;print(json.load(open('$d/meta.json'))['breaks_property'])")
  git -C $M/repo checkout -q --detach "$(git -C /repo rev-parse HEAD)" && git -C $M/repo checkout -q -- . || exit 2
  rsync -a --delete --exclude target /verif/harness/ $M/harness/
  sed -i "s#/repo/contracts#$M/repo/contracts#" $M/harness/Cargo.toml
  if ! git -C $M/repo apply "$d/patch.diff" 2>/dev/null; then echo "$sid $prop PATCH-DOES-NOT-APPLY"; continue; fi
  ln -sfn /verif/KNOWN_FINDINGS.txt $M/KNOWN_FINDINGS.txt; ln -sfn /verif/corpus $M/corpus; mkdir -p $M/evidence; rm -rf $M/replays; mkdir -p $M/replays
  export CARGO_NET_OFFLINE=true VERIF_DIR=$M
  ( cd $M/harness && cargo clean --release -p pool-manager -p farm-manager -p epoch-manager -p fee-collector >/dev/null 2>&1; cargo build --release -q 2>&1 | grep -E "^error" -A8 | head -20 )
  for s in $SEEDS; do
    out=$(cd $M/harness && ./target/release/dexcheck $prop quick --seed $s 2>&1); code=$?
    echo "$sid $prop seed=$s exit=$code $(echo "$out" | grep -m1 -E 'message=' | cut -c1-160)"
  done
  f=$(ls $M/replays/*.json 2>/dev/null | head -1); [ -n "$f" ] && cp "$f" /root/scratch/harvest/$sid.json
  git -C $M/repo checkout -q -- .
done
