#!/bin/bash
# tools/revert_fix.sh <commit> <check>...  — temporarily reverts one fix commit in /repo's working tree,
# runs the checks (quick tier) and restores the tree. Development aid for sensitivity testing.
c="$1"; shift
cd /repo || exit 2
if [ -n "$(git status --porcelain)" ]; then echo "repo dirty, refusing"; exit 2; fi
git show "$c" | git apply -R || { echo "cannot revert $c"; git checkout -- .; exit 2; }
for k in "$@"; do
  out=$(cd /verif && ./check $k quick 2>&1)
  code=$?
  first=$(echo "$out" | grep -m1 'message=' | cut -c1-260)
  echo "[revert $c] $k exit=$code $first"
done
git checkout -- .
