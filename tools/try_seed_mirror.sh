#!/bin/bash
# tools/try_seed_mirror.sh <patch.diff> <check>... — like try_seed.sh, but leaves /repo alone: applies the
# change to a scratch worktree of /repo (outside /repo and /verif) and builds a mirror of the harness
# against it. For use while something else (a background sweep) depends on /repo being unchanged.
# `tools/try_seed_mirror.sh --clean` removes the mirror.
M=/root/scratch/mirror
if [ "$1" = "--clean" ]; then git -C /repo worktree remove --force $M/repo 2>/dev/null; rm -rf $M; git -C /repo worktree prune; exit 0; fi
p="$1"; shift
mkdir -p $M
[ -d $M/repo ] || git -C /repo worktree add -q --detach $M/repo HEAD || exit 2
git -C $M/repo checkout -q --detach "$(git -C /repo rev-parse HEAD)" && git -C $M/repo checkout -q -- . || exit 2
rsync -a --delete --exclude target /verif/harness/ $M/harness/
sed -i "s#/repo/contracts#$M/repo/contracts#" $M/harness/Cargo.toml
if [ "$p" != "--none" ]; then git -C $M/repo apply "$p" || { echo "cannot apply $p"; exit 2; }; fi
ln -sfn /verif/KNOWN_FINDINGS.txt $M/KNOWN_FINDINGS.txt; ln -sfn /verif/corpus $M/corpus; mkdir -p $M/evidence $M/replays
export CARGO_NET_OFFLINE=true VERIF_DIR=$M
( cd $M/harness && cargo clean --release -p pool-manager -p farm-manager -p epoch-manager -p fee-collector >/dev/null 2>&1; cargo build --release -q 2>&1 | grep -E "^error" -A8 | head -20 )
for k in "$@"; do
  out=$(cd $M/harness && ./target/release/dexcheck $k quick 2>&1); code=$?
  first=$(echo "$out" | grep -m1 -E 'message=|corpus case' | cut -c1-300)
  echo "[$(echo $p | awk -F/ '{print $(NF-3)"/"$(NF-2)"/"$(NF-1)}')] $k exit=$code $first"
done
git -C $M/repo checkout -q -- .
